"""Minimise a failing scenario while the same violation signature persists.

Candidates come from (a) ddmin-style removal of chunks of ``scenario["ops"]``
and (b) the property module's ``simplify(scenario)`` generator (smaller sizes,
fewer objects, rounder numbers, faults dropped).  Every candidate is executed
in a fresh forked child; a candidate is accepted only if it reproduces the
*same signature*.  Candidates of one round run in parallel; the first one (in
generation order) that reproduces wins, so the result is deterministic.
"""
import copy
import time

from . import pool


def _reproduces(res, signature):
    if not res or res.get("harness_error"):
        return False
    return any(v["signature"] == signature for v in res.get("violations", []))


def _op_removals(sc):
    ops = sc.get("ops")
    if not isinstance(ops, list) or len(ops) <= 1 or sc.get("fixed_ops"):
        return
    n = len(ops)
    chunk = n // 2
    while chunk >= 1:
        for start in range(0, n, chunk):
            c = copy.deepcopy(sc)
            del c["ops"][start:start + chunk]
            if c["ops"]:
                yield c
        chunk //= 2


def minimise(prop_mod, scenario, signature, budget_runs=300, budget_s=75.0, nworkers=16, log=None):
    t_end = time.monotonic() + budget_s
    runs = 0
    cur = copy.deepcopy(scenario)
    improved = True
    rounds = 0
    while improved and runs < budget_runs and time.monotonic() < t_end:
        improved = False
        rounds += 1
        for source in ("ops", "simplify"):
            if source == "ops":
                cands = list(_op_removals(cur))
            else:
                simp = getattr(prop_mod, "simplify", None)
                try:
                    cands = list(simp(copy.deepcopy(cur))) if simp else []
                except Exception as e:      # a simplifier bug must never turn into a verdict
                    if log:
                        log("simplify() failed (%r); keeping the current scenario" % (e,))
                    cands = []
            # de-duplicate and drop no-ops
            seen, uniq = set(), []
            from .core import dumps
            base = dumps(cur)
            for c in cands:
                k = dumps(c)
                if k != base and k not in seen:
                    seen.add(k)
                    uniq.append(c)
            pos = 0
            while pos < len(uniq) and runs < budget_runs and time.monotonic() < t_end:
                batch = uniq[pos:pos + nworkers]
                jobs = [(i, c) for i, c in enumerate(batch)]
                res, _ = pool.run_many(prop_mod, jobs, nworkers=nworkers, deadline=t_end + 30, keep=lambda k, r: True)
                runs += len(batch)
                hit = None
                for i, c in enumerate(batch):
                    r = res.get(i)
                    if r and _reproduces(r[1], signature):
                        hit = c
                        break
                if hit is not None:
                    cur = hit
                    improved = True
                    break
                pos += len(batch)
            if improved:
                break
    if log:
        log("minimised in %d rounds, %d candidate runs" % (rounds, runs))
    return cur, runs
