"""C09 — quantisers: monotone affine maps into the signed b-bit range, stated refresh.

STREAM world.  The schedule is the call history of each quantiser object
(inputs of different families and lengths, custom deviations, resets, target
changes) against the refresh period; the carried state is the statistics cache
and the call counter.  Oracle: RefQuant, step by step.
"""
import copy
import warnings

import numpy as np

from ..models import voltage as mv
from ..seams import _REAL_DEFAULT_RNG

ID = "C09"
WORLD = "stream"
LEVEL = "exploration"
EST_RUN_S = 0.02
RULE = ("scenario = 1-3 quantiser objects (real/complex, bits 2..8, target mean/width, refresh period -3..5, "
        "stats_calc_num_samples around the input length) and a seeded call history over input families "
        "{gaussian, constant, two-valued, ramp, huge, tiny, length-1, 2-D} with custom deviations, _reset_cache, "
        "_set_target_stats and the stand-alone quantize_real/quantize_complex; non-trivial = >= 2 calls on one "
        "object so that the refresh rule is exercised; distinct = distinct abstract fingerprint")
COMPONENTS = {"real": ["setigen.voltage.quantization (RealQuantizer, ComplexQuantizer, quantize_real, quantize_complex)",
                       "setigen.voltage.data_stream.estimate_stats"],
              "stub": ["none needed on this path"]}
ASSUMPTIONS = ["a 'constant' input is an array of one repeated value (zero variance by definition, whatever its computed std)",
               "|x| kept within 1e-100..1e140 so that sums of squares neither overflow nor underflow",
               "+-1 tolerated iff the reference pre-rounding value is within 1e-9 of a rounding boundary"]
PROBES = ["more_than_256_calls_on_one_object", "object_copied_or_pickled_between_calls", "integer_parameters_as_numpy_scalars", "real_dtype_input_to_complex_quantiser", "refresh_skipped", "refresh_taken_later_call", "zero_variance_input", "custom_std_used",
          "ncalc_shorter_than_input", "clipped_values", "two_d_input", "period_nonpositive", "rejected_call"]

KINDS = ["gauss", "gauss", "gauss", "const", "two", "ramp", "huge", "tiny", "len1", "2d", "pedestal"]


def make_input(spec):
    rng = _REAL_DEFAULT_RNG([spec["seed"], 9])
    k, n = spec["kind"], spec["n"]
    if k == "gauss":
        return spec["mu"] + spec["sd"] * rng.standard_normal(n)
    if k == "const":
        return np.full(n, spec["mu"])
    if k == "two":
        return np.where(rng.random(n) < 0.5, spec["mu"], spec["mu"] + spec["sd"])
    if k == "ramp":
        return spec["mu"] + spec["sd"] * (np.arange(n) - n / 2.0)
    if k == "huge":
        return 1e120 * (spec["mu"] + spec["sd"] * rng.standard_normal(n))
    if k == "tiny":
        return 1e-100 * (spec["mu"] + spec["sd"] * rng.standard_normal(n))
    if k == "len1":
        return np.array([spec["mu"]])
    if k == "pedestal":
        # small, well defined variation on a huge DC offset (a few units in the last place of the mean)
        return 2.0 ** 50 + 0.25 * rng.integers(-3, 4, size=n)
    if k == "2d":
        return spec["mu"] + spec["sd"] * rng.standard_normal((max(n // 4, 1), 4))
    raise ValueError(k)


def gen_input(rng):
    return {"kind": rng.choice(KINDS), "seed": rng.randrange(1 << 30),
            "n": rng.choice([1, 2, 3, 7, 16, 50, 64, 200, 1000]),
            "mu": rng.choice([0.0, 3.7, -2.5, 1.0, 100.0, 0.1]),
            "sd": rng.choice([1.0, 0.5, 3.0, 25.0, 1e-3])}


def generate(rng, tier):
    nq = rng.choice([1, 1, 2, 3])
    quants = []
    for _ in range(nq):
        quants.append({"cls": rng.choice(["real", "complex"]), "bits": rng.choice([2, 3, 4, 4, 5, 6, 7, 8, 8]),
                       "tmean": rng.choice([0, 0, 0, 1.5, -3, 0.5]), "fwhm": rng.choice([32, 32, 8, 3, 6.0, 100]),
                       "period": rng.choice([-3, -1, 0, 1, 1, 2, 3, 5]),
                       "ncalc": rng.choice([1, 2, 5, 16, 60, 10000]),
                       # the same numbers as numpy integers (what arithmetic on arrays hands back)
                       "ntype": rng.choice(["int", "int", "int", "int64", "int32"])})
    ops = []
    for _ in range(rng.randint(2, 12)):
        q = rng.randrange(nq)
        r = rng.random()
        if r < 0.72:
            cu = None
            rr = rng.random()
            if rr < 0.15:
                cu = rng.choice([1.0, 2.5, 0.3])
            elif rr < 0.25:
                cu = [rng.choice([1.0, 2.0]), rng.choice([0.5, 4.0])]
            op = {"op": "q", "q": q, "x": gen_input(rng), "custom": cu, "alias": rng.random() < 0.1}
            if rng.random() < 0.5:
                op["y"] = gen_input(rng)       # imaginary part for complex quantisers
            elif rng.random() < 0.25:
                op["real_dtype"] = True
            ops.append(op)
        elif r < 0.76:
            # a call the quantiser must reject: it is not a call of the refresh schedule and leaves the estimates alone
            ops.append({"op": "reject", "q": q, "how": rng.choice(["none", "pair_custom"])})
        elif r < 0.78:
            ops.append({"op": "snapshot", "q": q, "how": rng.choice(["deepcopy", "pickle"])})
        elif r < 0.80:
            ops.append({"op": "reset", "q": q})
        elif r < 0.88:
            ops.append({"op": "target", "q": q, "mean": rng.choice([0.0, 2.0, -1.25]), "std": rng.choice([1.0, 5.0, 13.6]),
                        "part": rng.choice(["r", "i"])})
        elif r < 0.94:
            ops.append({"op": "freal", "x": gen_input(rng), "bits": rng.choice([2, 4, 8]), "tmean": rng.choice([0, 1.0]),
                        "tstd": rng.choice([13.59, 2.0]), "ncalc": rng.choice([3, 10000]),
                        "given": rng.choice([None, [0.5, 2.0]])})
        else:
            ops.append({"op": "fcomplex", "x": gen_input(rng), "y": gen_input(rng), "bits": rng.choice([2, 4, 8]),
                        "tmean": rng.choice([0, 1.0]), "tstd": rng.choice([13.59, 2.0]), "ncalc": rng.choice([3, 10000])})
    if rng.random() < (0.06 if tier == "quick" else 0.12):
        # SCALE: hundreds of calls on one object (a counter, a bounded history or a cache that only wraps or fills after
        # many calls is invisible in a dozen); small inputs keep the burst cheap, the period is made a non-trivial one
        q = rng.randrange(nq)
        if rng.random() < 0.8:
            quants[q]["period"] = rng.choice([2, 3, 5, 7, 16, 100])
        x = gen_input(rng)
        x["n"] = rng.choice([2, 3, 7, 16])
        x["kind"] = rng.choice(["gauss", "gauss", "two", "ramp"])
        ops.insert(rng.randrange(len(ops) + 1), {"op": "q", "q": q, "x": x, "custom": None, "alias": False,
                                                 "rep": rng.choice([130, 260, 300, 520, 700])})
    if rng.random() < (0.05 if tier == "quick" else 0.1):
        # SCALE: one long input (block-wise paths that only engage beyond some length, and their remainder handling)
        for _ in range(rng.choice([1, 2])):
            x = gen_input(rng)
            x["n"] = rng.choice([65537, 100003, 262145, 300000, 536633, 1000003])
            x["kind"] = rng.choice(["gauss", "gauss", "two", "ramp"])
            op = {"op": "q", "q": rng.randrange(nq), "x": x, "custom": rng.choice([None, None, 2.5]), "alias": False}
            ops.insert(rng.randrange(len(ops) + 1), op)
    return {"seams": {"entropy_salt": rng.randrange(1 << 20), "scratch": "c09"}, "quants": quants, "ops": ops}


def simplify(sc):
    for j, op in enumerate(sc["ops"]):
        for key in ("x", "y"):
            if key in op and isinstance(op[key], dict):
                x = op[key]
                if x["n"] > 3:
                    c = copy.deepcopy(sc)
                    c["ops"][j][key]["n"] = max(2, x["n"] // 2)
                    yield c
                if x["kind"] not in ("const", "ramp"):
                    c = copy.deepcopy(sc)
                    c["ops"][j][key]["kind"] = "ramp"
                    yield c
        if op.get("rep", 1) > 1:
            for r in (op["rep"] // 2, op["rep"] * 3 // 4, op["rep"] - 1):
                c = copy.deepcopy(sc)
                c["ops"][j]["rep"] = max(r, 1)
                yield c
        if op.get("custom") is not None:
            c = copy.deepcopy(sc)
            c["ops"][j]["custom"] = None
            yield c
        if "y" in op and op["op"] == "q":
            c = copy.deepcopy(sc)
            del c["ops"][j]["y"]
            yield c
        if op.get("q", 0) > 0:
            c = copy.deepcopy(sc)
            c["ops"][j]["q"] = 0
            yield c
    for i, q in enumerate(sc["quants"]):
        for key, v in (("bits", 8), ("tmean", 0), ("fwhm", 32), ("ncalc", 10000), ("period", 1)):
            if q[key] != v:
                c = copy.deepcopy(sc)
                c["quants"][i][key] = v
                yield c
    if len(sc["quants"]) > 1:
        for drop in range(len(sc["quants"])):
            c = copy.deepcopy(sc)
            del c["quants"][drop]
            for op in c["ops"]:
                if "q" in op:
                    op["q"] = op["q"] % len(c["quants"])
            yield c


def _same_shape(x, y):
    if x.shape == y.shape:
        return y
    y = np.resize(y, x.shape)
    return y


def _judge(ctx, got, pre, bits, x, what, sig_extra=""):
    """Compare one real quantiser output with the reference pre-rounding values."""
    got = np.asarray(got)
    lo, hi = -2 ** (bits - 1), 2 ** (bits - 1) - 1
    if not ctx.check(got.shape == np.asarray(x).shape, "shape", "C09/shape/" + what,
                     lambda: "got %s want %s" % (got.shape, np.asarray(x).shape)):
        return False
    if not ctx.check(np.issubdtype(got.dtype, np.integer), "dtype", "C09/dtype_not_integer/" + what, str(got.dtype)):
        return False
    if not ctx.check(got.size == 0 or (got.min() >= lo and got.max() <= hi), "range", "C09/out_of_range/" + what,
                     lambda: "min %s max %s for %d bits" % (got.min(), got.max(), bits)):
        return False
    ok, nt, bad = mv.compare_quantised(got, pre, bits)
    ctx.ties += nt
    if not ok:
        p = np.asarray(pre).ravel()[bad]
        ctx.violation("value", "C09/value/" + what + sig_extra,
                      "index %d: got %d, reference pre-rounding %.17g (x=%r)" % (
                          bad, got.ravel()[bad], p, np.asarray(x).ravel()[bad]))
        return False
    # monotone non-decreasing in the input
    order = np.argsort(np.asarray(x).ravel(), kind="stable")
    g = got.ravel()[order]
    ctx.check(np.all(np.diff(g) >= 0), "monotone", "C09/not_monotone/" + what, "output decreases while input increases")
    if got.size and (got.min() == lo or got.max() == hi):
        ctx.hit("clipped_values")
    return True


def _cls_of_input(x, ncalc):
    x = np.asarray(x)
    m = min(ncalc, len(x))
    p = x[:m]
    if p.size and np.all(p == p.flat[0]):
        return "/zero_variance_prefix"
    return ""


def execute(sc, ctx):
    import setigen.voltage.quantization as qz
    objs = []
    for spec in sc["quants"]:
        cast = {"int": int, "int64": np.int64, "int32": np.int32}[spec.get("ntype", "int")]
        kw = dict(target_mean=spec["tmean"], target_fwhm=spec["fwhm"], num_bits=cast(spec["bits"]),
                  stats_calc_period=cast(spec["period"]), stats_calc_num_samples=cast(spec["ncalc"]))
        if spec.get("ntype", "int") != "int":
            ctx.hit("integer_parameters_as_numpy_scalars")
        tstd = spec["fwhm"] / mv.FWHM
        if spec["cls"] == "real":
            o = qz.RealQuantizer(**kw)
            models = [mv.RefQuant(spec["tmean"], tstd, spec["bits"], spec["period"], spec["ncalc"])]
        else:
            o = qz.ComplexQuantizer(**kw)
            models = [mv.RefQuant(spec["tmean"], tstd, spec["bits"], spec["period"], spec["ncalc"]) for _ in range(2)]
        objs.append({"o": o, "m": models, "spec": spec, "calls": 0})
        if spec["period"] <= 0:
            ctx.hit("period_nonpositive")
    held = []
    for op0 in sc["ops"]:
        for rep in range(op0.get("rep", 1) if op0["op"] == "q" else 1):
            op = op0
            if rep:
                # the burst: the same call again and again, on fresh data each time (statistics differ between calls, so
                # that a refresh taken or skipped on the wrong call shows)
                op = dict(op0, x=dict(op0["x"], seed=op0["x"]["seed"] + 7919 * rep,
                                      mu=op0["x"]["mu"] + 0.37 * (rep % 5), sd=op0["x"]["sd"] * (1 + 0.5 * (rep % 3))))
                op.pop("y", None)
            ctx.op(op["op"])
            with warnings.catch_warnings():
                warnings.simplefilter("ignore")
                _step(qz, objs, op, ctx, held)
                if not ctx.violations and not _held_intact(ctx, held):
                    break
                del held[:-6]
            if ctx.violations and ctx.stop_on_violation:
                break
        if ctx.violations and ctx.stop_on_violation:
            break
    if any(o["calls"] > 256 for o in objs):
        ctx.hit("more_than_256_calls_on_one_object")
    ctx.sim_time += 1e-6 * sum(o["calls"] for o in objs)
    ctx.fingerprint = [sorted({(q["cls"], q["bits"]) for q in sc["quants"]}),
                       sorted({("neg" if q["period"] < 0 else q["period"]) if q["period"] < 2 else "2+" for q in sc["quants"]},
                              key=str),
                       sorted({op["x"]["kind"] for op in sc["ops"] if "x" in op}),
                       sorted({type(op.get("custom")).__name__ for op in sc["ops"] if op["op"] == "q"}),
                       sorted({op["op"] for op in sc["ops"]})]


def _held_intact(ctx, held):
    """What earlier calls returned is the caller's: later calls must not change it."""
    for ret, snap, what in held:
        if not ctx.check(np.array_equal(np.asarray(ret), snap, equal_nan=True), "held",
                         "C09/returned_array_changed_by_later_call/" + what,
                         "an array returned by an earlier quantize() no longer holds the values it was returned with"):
            return False
    return True


def _step(qz, objs, op, ctx, held):
    kind = op["op"]
    if kind in ("q", "reset", "target", "snapshot") and objs[op["q"] % len(objs)].get("dead"):
        return
    if kind == "q":
        S = objs[op["q"] % len(objs)]
        o, spec = S["o"], S["spec"]
        x = make_input(op["x"])
        cu = op.get("custom")
        if spec["cls"] == "real":
            if isinstance(cu, list):
                cu = cu[0]
            m = S["m"][0]
            due = m.refresh_due()
            pre, refreshed = m.pre(x, cu)
            fn = o.digitize if op.get("alias") else o.quantize
            xin = x.copy()
            raw_ret = fn(xin, custom_std=cu)
            got = np.asarray(raw_ret)
            held.append((raw_ret, np.array(got, copy=True), "real"))
            if not ctx.check(np.array_equal(xin, x, equal_nan=True), "args", "C09/input_array_modified/real", "the caller's input array was changed"):
                return
            ctx.event("q", op["q"], got)
            _note(ctx, S, m, x, cu, refreshed)
            _judge(ctx, got, pre, m.bits, x, "real", _cls_of_input(x, m.ncalc) if refreshed and cu is None else "")
        else:
            y = make_input(op["y"]) if "y" in op else make_input(dict(op["x"], seed=op["x"]["seed"] + 1))
            y = _same_shape(x, y)
            z = x + 1j * y
            if op.get("real_dtype"):
                # a complex quantiser handed an array of real dtype: its imaginary part is identically zero, which
                # is a (zero-variance) input like any other and a call of the imaginary schedule like any other
                y = np.zeros_like(x)
                z = x.copy()
                ctx.hit("real_dtype_input_to_complex_quantiser")
            cus = [cu, cu] if not isinstance(cu, list) else cu
            pres = []
            for part, (m, arr, c) in enumerate(zip(S["m"], (x, y), cus)):
                pre, refreshed = m.pre(arr, c)
                pres.append((pre, refreshed))
                _note(ctx, S, m, arr, c, refreshed)
            zin = z.copy()
            raw_ret = o.quantize(zin, custom_stds=copy.deepcopy(cu))
            got = np.asarray(raw_ret)
            held.append((raw_ret, np.array(got, copy=True), "complex"))
            if not ctx.check(np.array_equal(zin, z, equal_nan=True), "args", "C09/input_array_modified/complex", "the caller's input array was changed"):
                return
            ctx.event("q", op["q"], got)
            if not ctx.check(np.iscomplexobj(got) and got.shape == z.shape, "shape", "C09/shape/complex",
                             lambda: "got %s %s" % (got.dtype, got.shape)):
                return
            for part, name, arr in ((0, "complex_re", x), (1, "complex_im", y)):
                g = got.real if part == 0 else got.imag
                gi = np.around(g).astype(np.int64)
                if not ctx.check(np.array_equal(gi, g), "dtype", "C09/non_integer_values/" + name, "non-integer part"):
                    return
                m = S["m"][part]
                extra = _cls_of_input(arr, m.ncalc) if pres[part][1] and cus[part] is None else ""
                if not _judge(ctx, gi, pres[part][0], m.bits, arr, name, extra):
                    return
        S["calls"] += 1
        if S["calls"] >= 2:
            ctx.nontrivial = True
    elif kind == "reject":
        S = objs[op["q"] % len(objs)]
        o = S["o"]
        try:
            if op["how"] == "none":
                o.quantize(None)
            elif S["spec"]["cls"] == "real":
                o.quantize(np.arange(8.0), custom_std=[1.0, 2.0])      # a pair where a scalar is required
            else:
                o.quantize(np.arange(8.0) + 0j, custom_stds=[1.0, 2.0, 3.0])
            raised = False
        except Exception:
            raised = True
        ctx.event("reject", op["q"], raised)
        if raised:
            ctx.fired("rejected_call")
        else:
            ctx.hit("invalid_call_accepted")
            S["dead"] = True
    elif kind == "snapshot":
        # the object is copied or pickled between two calls (a checkpoint; a template handed to a backend)
        import pickle as _pickle
        S = objs[op["q"] % len(objs)]
        if op["how"] == "deepcopy":
            copy.deepcopy(S["o"])
        else:
            _pickle.loads(_pickle.dumps(S["o"]))
        ctx.hit("object_copied_or_pickled_between_calls")
        ctx.event("snapshot", op["q"])
    elif kind == "reset":
        S = objs[op["q"] % len(objs)]
        S["o"]._reset_cache()
        for m in S["m"]:
            m.reset()
        ctx.event("reset", op["q"])
    elif kind == "target":
        S = objs[op["q"] % len(objs)]
        o = S["o"]
        if S["spec"]["cls"] == "real":
            o._set_target_stats(op["mean"], op["std"])
            m = S["m"][0]
        else:
            part = 0 if op["part"] == "r" else 1
            (o.quantizer_r if part == 0 else o.quantizer_i)._set_target_stats(op["mean"], op["std"])
            m = S["m"][part]
        m.target_mean, m.target_std = op["mean"], op["std"]
        ctx.event("target", op["q"])
    elif kind == "freal":
        x = make_input(op["x"])
        if op["given"] is None:
            mean, std = mv.prefix_stats(x, op["ncalc"])
            got = qz.quantize_real(x.copy(), target_mean=op["tmean"], target_std=op["tstd"], num_bits=op["bits"],
                                   stats_calc_num_samples=op["ncalc"])
            extra = _cls_of_input(x, op["ncalc"])
        else:
            mean, std = op["given"]
            got = qz.quantize_real(x.copy(), target_mean=op["tmean"], target_std=op["tstd"], num_bits=op["bits"],
                                   data_mean=mean, data_std=std, stats_calc_num_samples=op["ncalc"])
            extra = ""
        ctx.event("freal", got)
        _judge(ctx, np.asarray(got), mv.quant_pre(x, mean, std, op["tmean"], op["tstd"]), op["bits"], x,
               "quantize_real", extra)
    elif kind == "fcomplex":
        x = make_input(op["x"])
        y = _same_shape(x, make_input(op["y"]))
        got = np.asarray(qz.quantize_complex(x + 1j * y, target_mean=op["tmean"], target_std=op["tstd"],
                                             num_bits=op["bits"], stats_calc_num_samples=op["ncalc"]))
        ctx.event("fcomplex", got)
        for name, arr, g in (("quantize_complex_re", x, got.real), ("quantize_complex_im", y, got.imag)):
            mean, std = mv.prefix_stats(arr, op["ncalc"])
            gi = np.around(g).astype(np.int64)
            _judge(ctx, gi, mv.quant_pre(arr, mean, std, op["tmean"], op["tstd"]), op["bits"], arr, name,
                   _cls_of_input(arr, op["ncalc"]))


def _note(ctx, S, m, x, cu, refreshed):
    if refreshed and m.calls > 1:
        ctx.hit("refresh_taken_later_call")
    if not refreshed:
        ctx.hit("refresh_skipped")
    if cu is not None:
        ctx.hit("custom_std_used")
    if m.cache[1] == 0.0:
        ctx.hit("zero_variance_input")
    if m.ncalc < len(x):
        ctx.hit("ncalc_shorter_than_input")
    if np.asarray(x).ndim == 2:
        ctx.hit("two_d_input")
