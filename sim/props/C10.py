"""C10 — antenna streams deliver one continuous timeline however requests are chunked.

STREAM world.  Schedule: partition of the timeline into request sizes,
interleaved with set_time / add_time / reset_start / update_noise.  Oracles:
(i) RefStream by definition (exact times, same-seed noise, closed-form chirp,
custom sources), (ii) chunked == one-shot on a same-seed twin.
"""
import copy
import math
from fractions import Fraction

import numpy as np

from ..models import voltage as mv
from ..seams import _REAL_DEFAULT_RNG
from ..core import ulp as core_ulp, InjectedCallbackError, gen_seed

ID = "C10"
WORLD = "stream"
LEVEL = "exploration"
EST_RUN_S = 0.03
RULE = ("scenario = one DataStream or Antenna (1-2 pols; seeded noise, 0-2 chirps of either drift sign, 0-2 custom real/"
        "complex sources; either orientation; dyadic or realistic sample rate) and a seeded interleaving of "
        "get_samples(n in 1..4096) with set_time/add_time/reset_start/update_noise; non-trivial = >= 2 requests "
        "compared against RefStream and against a one-shot same-seed twin; distinct = abstract fingerprint")
COMPONENTS = {"real": ["setigen.voltage.data_stream.DataStream", "setigen.voltage.antenna.Antenna", "numpy Generator"],
              "stub": ["entropy seam (tripwire only; every stream is seeded)"]}
ASSUMPTIONS = ["numpy Generator.standard_normal is stream-consistent (n1 then n2 draws == n1+n2 draws); asserted at start-up",
               "at most one noise source per stream (two sources share one generator, so their draws legitimately interleave per request)",
               "custom sources are pure functions of the time array"]
PROBES = ["more_than_128_requests_on_one_object", "other_rate_stream_used_same_request_lengths_before", "background_stream_subclass", "chirp_parameters_given_as_quantities", "source_returns_view_of_own_array", "dyadic_bitwise", "request_len_1", "control_set_time", "control_add_time", "control_reset_start",
          "control_update_noise", "complex_source", "descending_band", "antenna_two_pols", "negative_drift", "source_callback_error"]


def startup_checks():
    a = _REAL_DEFAULT_RNG(5)
    b = _REAL_DEFAULT_RNG(5)
    x = np.concatenate([a.standard_normal(37), a.standard_normal(1), a.standard_normal(400)])
    if not np.array_equal(x, b.standard_normal(438)):
        return "numpy standard_normal is not stream-consistent"
    return None


def gen_sources(rng, fs, fch1, ascending):
    src = {"noise": None, "chirps": [], "customs": []}
    if rng.random() < 0.8:
        src["noise"] = [rng.choice([0.0, 0.0, 1.5, -2.0]), rng.choice([1.0, 0.5, 3.0])]
    for _ in range(rng.choice([0, 1, 1, 2])):
        off = rng.choice([0.0, 0.013, 0.1, 0.25, 0.37, 0.499]) * fs / 2
        f_start = fch1 + off if ascending else fch1 - off
        src["chirps"].append({"f_start": f_start,
                              "drift": rng.choice([0.0, 0.0, 1.0, -1.0, 250.0, -3000.0, 1e5]),
                              "level": rng.choice([1.0, 0.1, 5.0]), "phase": rng.choice([0.0, 0.5, -1.2, math.pi])})
        if rng.random() < 0.3:
            # the documented alternative spelling: astropy quantities, in whatever unit the user likes
            src["chirps"][-1]["f_unit"] = rng.choice(["Hz", "kHz", "MHz", "GHz"])
            src["chirps"][-1]["d_unit"] = rng.choice(["Hz/s", "kHz/s", "MHz/s", "kHz/min", "mHz/s", None])
    for _ in range(rng.choice([0, 0, 1, 1, 2])):
        src["customs"].append({"kind": rng.choice(["sin", "cexp", "lin", "const", "list", "rtable", "ctable", "ctable"]),
                               "a": rng.choice([1.0, 0.25, -2.0]), "f": rng.choice([0.5, 3.0, 40.0])})
    return src


def generate(rng, tier):
    dyadic = rng.random() < 0.5
    if dyadic:
        k = rng.choice([4, 8, 10, 16, 20])
        fs = float(2 ** k)
        t_start = rng.choice([0.0, 1.0, 0.5, 37.25, 1024.0, rng.randrange(0, 4096) / 2 ** min(k, 10)])
        fch1 = float(rng.choice([0, 2 ** 20, 2 ** 30]))
    else:
        fs = rng.choice([3e9, 2.4e9, 44100.0, 1e6, 187.5e6, 1234567.0, 3.0])
        t_start = rng.choice([0.0, 0.0, 1.0, 12.5, 0.1, 3600.0, 1e-3, 59000.5])
        fch1 = rng.choice([0.0, 6e9, 1.42e9, 8.5e9])
    ascending = rng.random() < 0.5
    kind = rng.choice(["stream", "antenna", "antenna"])
    pols = 1 if kind == "stream" else rng.choice([1, 2, 2])
    srcs = [gen_sources(rng, fs, fch1, ascending) for _ in range(pols)]
    ops = []
    for _ in range(rng.randint(2, 12)):
        r = rng.random()
        if r < 0.06:
            # a request that dies part-way (a user source raises), then the documented ways of re-synchronising
            ops.append({"op": "fault_get", "n": rng.choice([1, 5, 64, 1000]), "pol": rng.randrange(pols)})
            if kind == "stream" or rng.random() < 0.4:
                ops.append({"op": "set_time", "t": (rng.randrange(0, 1 << 14) / 16.0) if dyadic else rng.choice([0.0, 7.3, 100.0])})
            elif rng.random() < 0.5:
                ops.append({"op": "add_time", "t": rng.choice([0.0, 0.5, 2.0]) if dyadic else rng.choice([0.0, 0.1, 2.5])})
            else:
                ops.append({"op": "reset_start"})
            continue
        if r < 0.66:
            ops.append({"op": "get", "n": rng.choice([1, 1, 2, 3, 5, 8, 16, 31, 64, 100, 255, 256, 1000, 1024, 4096])})
        elif r < 0.75:
            if dyadic:
                t = rng.randrange(0, 1 << 14) / 16.0
            else:
                t = rng.choice([0.0, 1.0, 7.3, 100.0, 0.001, 59000.5])
            ops.append({"op": "set_time", "t": t})
        elif r < 0.84:
            t = rng.choice([0.0, 0.5, 2.0, 1.0 / 64]) if dyadic else rng.choice([0.0, 0.1, 2.5, 1e-6, 33.3])
            ops.append({"op": "add_time", "t": t})
        elif r < 0.92:
            ops.append({"op": "reset_start"})
        else:
            ops.append({"op": "update_noise", "m": rng.choice([1, 10, 100, 1000]), "pol": rng.randrange(pols)})
    if rng.random() < (0.06 if tier == "quick" else 0.12):
        # SCALE: hundreds of requests on one object (a clock re-derived every so many calls, a counter that wraps, a
        # buffer that fills are invisible in a dozen requests), optionally after an update_noise (which draws through
        # get_samples itself and must leave no trace)
        at = rng.randrange(len(ops) + 1)
        while at > 0 and ops[at - 1]["op"] == "fault_get":
            at += 1             # never between a failed request and the re-synchronisation that follows it
        burst = [{"op": "get", "n": rng.choice([1, 2, 3, 5, 8, 16, 31, 64]), "rep": rng.choice([130, 200, 260, 300, 520])}]
        if rng.random() < 0.6:
            burst.insert(0, {"op": "update_noise", "m": rng.choice([10, 1000]), "pol": rng.randrange(pols)})
        ops[at:at] = burst
    if rng.random() < (0.04 if tier == "quick" else 0.1):
        # SCALE: one or several very long requests (chunked or buffered paths that only engage beyond some length)
        at = rng.randrange(len(ops) + 1)
        while at > 0 and ops[at - 1]["op"] == "fault_get":
            at += 1
        n_long = 2 ** rng.choice([16, 17, 18, 19, 20]) + rng.choice([0, 0, 1, 37, 1000])
        ops[at:at] = [{"op": "get", "n": n_long} for _ in range(rng.choice([1, 1, 2, 3]))] + [{"op": "get", "n": rng.choice([1, 16, 1000])}]
    cfg = {"kind": kind, "fs": fs, "fch1": fch1, "ascending": ascending, "t_start": t_start,
           "seed": gen_seed(rng), "pols": pols, "dyadic": dyadic, "sources": srcs}
    if kind == "stream" and rng.random() < 0.3:
        cfg["subclass"] = "background"
    sc = {"seams": {"entropy_salt": rng.randrange(1 << 20), "scratch": "c10"}, "cfg": cfg, "ops": ops}
    if rng.random() < 0.2:
        sc["predecessor"] = {"rate_factor": rng.choice([2.0, 0.5, 3.0]), "count": rng.choice([1, 2, 4])}
    return sc


def _expanded(ops):
    for op in ops:
        for _ in range(op.get("rep", 1)):
            yield op


def simplify(sc):
    cfg = sc["cfg"]
    for j, op in enumerate(sc["ops"]):
        if op.get("rep", 1) > 1:
            for r in (op["rep"] // 2, op["rep"] * 3 // 4, op["rep"] - 1):
                c = copy.deepcopy(sc)
                c["ops"][j]["rep"] = max(r, 1)
                yield c
    for p, s in enumerate(cfg["sources"]):
        if s["noise"] is not None:
            c = copy.deepcopy(sc)
            c["cfg"]["sources"][p]["noise"] = None
            yield c
        for key in ("chirps", "customs"):
            for i in range(len(s[key])):
                c = copy.deepcopy(sc)
                del c["cfg"]["sources"][p][key][i]
                yield c
    if cfg["pols"] == 2:
        c = copy.deepcopy(sc)
        c["cfg"]["pols"] = 1
        c["cfg"]["sources"] = c["cfg"]["sources"][:1]
        for op in c["ops"]:
            if "pol" in op:
                op["pol"] = 0
        yield c
    if cfg["kind"] == "antenna" and cfg["pols"] == 1:
        c = copy.deepcopy(sc)
        c["cfg"]["kind"] = "stream"
        yield c
    if cfg["t_start"] != 0.0:
        c = copy.deepcopy(sc)
        c["cfg"]["t_start"] = 0.0
        yield c
    for j, op in enumerate(sc["ops"]):
        if op["op"] == "get" and op["n"] > 1:
            c = copy.deepcopy(sc)
            c["ops"][j]["n"] = max(1, op["n"] // 2)
            yield c
        if op["op"] == "update_noise" and op["m"] > 1:
            c = copy.deepcopy(sc)
            c["ops"][j]["m"] = 1
            yield c


# ---------------------------------------------------------------------------

CPLX_KINDS = ("cexp", "ctable")


class TableSource:
    """A user source that serves a slice (a view, not a copy) of its own persistent table: a constant offset, real or
    complex.  The library must treat what a source returns as read-only input."""
    live = []

    def __init__(self, value):
        self.value = value
        self.table = np.full(4096, value)
        TableSource.live.append(self)

    def __call__(self, ts):
        n = len(ts)
        if n > len(self.table):
            self.table = np.full(2 * n, self.value)
        return self.table[:n]

    def intact(self):
        return bool(np.all(self.table == self.value))


def make_custom(c):
    a, f = c["a"], c["f"]
    k = c["kind"]
    if k == "rtable":
        return TableSource(float(a))
    if k == "ctable":
        return TableSource(complex(a, 0.5 * f))
    if k == "sin":
        return lambda ts: a * np.sin(2 * np.pi * f * ts)
    if k == "cexp":
        return lambda ts: a * np.exp(2j * np.pi * f * ts)
    if k == "lin":
        return lambda ts: a * ts + f
    if k == "const":
        return lambda ts: a
    if k == "list":
        return lambda ts: [a * t for t in ts]
    raise ValueError(k)


def custom_lipschitz(c):
    a, f = abs(c["a"]), abs(c["f"])
    return {"sin": 2 * np.pi * f * a, "cexp": 2 * np.pi * f * a, "lin": a, "const": 0.0, "list": a, "rtable": 0.0, "ctable": 0.0}[c["kind"]]


def with_quantities(cfg):
    """Chirp parameters given with units: the Quantity objects handed to the library are kept under '_fq'/'_dq', and
    the plain numbers the reference uses are astropy's own conversion of exactly those objects to Hz and Hz/s."""
    from astropy import units as u
    cfg = copy.deepcopy(cfg)
    for src in cfg["sources"]:
        for ch in src["chirps"]:
            if ch.get("f_unit"):
                fu = u.Unit(ch["f_unit"])
                ch["_fq"] = (ch["f_start"] * u.Hz).to(fu)
                ch["f_start"] = float(ch["_fq"].to(u.Hz).value)
            if ch.get("d_unit"):
                du = u.Unit(ch["d_unit"])
                ch["_dq"] = (ch["drift"] * u.Hz / u.s).to(du)
                ch["drift"] = float(ch["_dq"].to(u.Hz / u.s).value)
    return cfg


def build(cfg, setigen_voltage):
    if cfg["kind"] == "stream":
        # ... or its public subclass, the stream type an array's shared background is made of
        cls_ = setigen_voltage.BackgroundDataStream if cfg.get("subclass") == "background" else setigen_voltage.DataStream
        s = cls_(sample_rate=cfg["fs"], fch1=cfg["fch1"], ascending=cfg["ascending"], t_start=cfg["t_start"], seed=cfg["seed"])
        streams = [s]
        top = s
    else:
        top = setigen_voltage.Antenna(sample_rate=cfg["fs"], fch1=cfg["fch1"], ascending=cfg["ascending"],
                                      num_pols=cfg["pols"], t_start=cfg["t_start"], seed=cfg["seed"])
        streams = list(top.streams)
    return top, streams


class Gate:
    """A user source that contributes nothing, unless armed: then it raises (a callback failing part-way)."""

    def __init__(self):
        self.armed = False

    def __call__(self, ts):
        if self.armed:
            self.armed = False
            raise InjectedCallbackError("user source failed")
        return 0.0


def add_sources(streams, cfg, gates=None):
    for s, src in zip(streams, cfg["sources"]):
        if src["noise"] is not None:
            s.add_noise(src["noise"][0], src["noise"][1])
        for ch in src["chirps"]:
            s.add_constant_signal(f_start=ch.get("_fq", ch["f_start"]), drift_rate=ch.get("_dq", ch["drift"]), level=ch["level"],
                                  phase=ch["phase"])
        for cu in src["customs"]:
            s.add_signal(make_custom(cu))
        if gates is not None:
            g = Gate()
            gates.append(g)
            s.add_signal(g)


class RefStream:
    """Sample k since the last clock setting is at base + k/fs (exact)."""

    def __init__(self, cfg, src, rng_state):
        self.cfg = cfg
        self.src = src
        self.fs = Fraction(cfg["fs"])
        self.base = Fraction(cfg["t_start"])
        self.k = 0
        self.requests = 0          # since the clock was last set exactly
        self.gen = _REAL_DEFAULT_RNG(0)
        self.gen.bit_generator.state = copy.deepcopy(rng_state)
        self.tmax = abs(float(cfg["t_start"]))
        self.noise_only = src["noise"] is not None and not src["chirps"] and not src["customs"]
        self.last_epoch_ts = np.zeros(0)
        self.last_ttol = 0.0

    def now(self):
        return self.base + Fraction(self.k) / self.fs

    def set_time(self, t):
        self.base = Fraction(t)
        self.k = 0
        self.requests = 0
        self.tmax = max(abs(float(t)), 0.0)

    def add_time(self, t):
        self.base = self.now() + Fraction(t)
        self.k = 0
        self.requests += 1
        self.tmax = max(self.tmax, abs(float(self.base)))

    def times(self, n):
        t0 = self.now()
        ld = np.longdouble
        ts = (ld(float(t0)) + ld(float(t0 - Fraction(float(t0))))
              + np.arange(n, dtype=ld) / ld(float(self.fs))).astype(float)
        # exact spot checks at both ends
        ts[0] = float(t0)
        ts[-1] = float(t0 + Fraction(n - 1) / self.fs)
        return ts

    def time_tol(self, n):
        t_hi = max(self.tmax, abs(float(self.now() + Fraction(n) / self.fs)))
        self.tmax = t_hi
        return (2 * self.requests + 4) * core_ulp(t_hi)

    def draw_noise(self, n):
        if self.src["noise"] is None:
            return None
        return self.gen.standard_normal(n)

    def expected(self, ts, z):
        cfg, src = self.cfg, self.src
        v = np.zeros(len(ts))
        if src["noise"] is not None:
            v = v + (src["noise"][0] + src["noise"][1] * z)
        for ch in src["chirps"]:
            v = v + mv.chirp(ts, ch["f_start"], cfg["fch1"], ch["drift"], ch["level"], ch["phase"], cfg["ascending"])
        for cu in src["customs"]:
            sv = np.array(make_custom(cu)(ts))
            if np.iscomplexobj(sv) and not np.iscomplexobj(v):
                v = v.astype(complex)
            v = v + sv
        return v

    def value_tol(self, ts, t_tol):
        cfg, src = self.cfg, self.src
        tol = np.zeros(len(ts))
        mag = np.zeros(len(ts))
        if src["noise"] is not None:
            mag = mag + abs(src["noise"][0]) + 8 * abs(src["noise"][1])
        for ch in src["chirps"]:
            tol = tol + mv.chirp_bound(ts, ch["f_start"], cfg["fch1"], ch["drift"], ch["level"], t_tol)
            mag = mag + abs(ch["level"])
        for cu in src["customs"]:
            tol = tol + custom_lipschitz(cu) * t_tol + 8 * np.finfo(float).eps * (abs(cu["a"]) * (1 + np.abs(ts)) + abs(cu["f"]))
            mag = mag + abs(cu["a"]) * (1 + np.abs(ts)) + abs(cu["f"])
        return tol + 8 * np.finfo(float).eps * mag

    def advance(self, n):
        self.k += n
        self.requests += 1


def execute(sc, ctx):
    import setigen.voltage as sv
    if sc.get("predecessor"):
        # another stream of another sample rate has asked for the same request lengths earlier in this process
        pre = sc["predecessor"]
        ps = sv.DataStream(sample_rate=sc["cfg"]["fs"] * pre["rate_factor"], fch1=sc["cfg"]["fch1"], ascending=sc["cfg"]["ascending"],
                           t_start=0.0, seed=1)
        ps.add_noise(0.0, 1.0)
        for n in [op["n"] for op in sc["ops"] if op["op"] == "get"][:pre["count"]]:
            ps.get_samples(n)
        ctx.hit("other_rate_stream_used_same_request_lengths_before")
    cfg = with_quantities(sc["cfg"])
    if any(ch.get("_fq") is not None or ch.get("_dq") is not None for s_ in cfg["sources"] for ch in s_["chirps"]):
        ctx.hit("chirp_parameters_given_as_quantities")
    dy = cfg["dyadic"]
    top, streams = build(cfg, sv)
    states = [copy.deepcopy(s.rng.bit_generator.state) for s in streams]
    gates = []
    TableSource.live = []
    add_sources(streams, cfg, gates)
    refs = [RefStream(cfg, src, st) for src, st in zip(cfg["sources"], states)]
    twin, tstreams = build(cfg, sv)
    add_sources(tstreams, cfg)
    user_tables = list(TableSource.live)      # arrays owned by the user's sources (system under test and twin)
    if user_tables:
        ctx.hit("source_returns_view_of_own_array")
    if cfg.get("subclass") == "background":
        ctx.hit("background_stream_subclass")
    if not cfg["ascending"]:
        ctx.hit("descending_band")
    if cfg["pols"] == 2:
        ctx.hit("antenna_two_pols")
    if any(ch["drift"] < 0 for s in cfg["sources"] for ch in s["chirps"]):
        ctx.hit("negative_drift")
    if any(cu["kind"] in CPLX_KINDS for s in cfg["sources"] for cu in s["customs"]):
        ctx.hit("complex_source")
    if ctx.check(all(a != b for a, b in zip(states[:1], states[1:])) or len(states) < 2, "seeds",
                 "C10/antenna/pols_share_noise_seed", "x and y generators start in the same state"):
        pass
    is_ant = cfg["kind"] == "antenna"
    last_ctrl = "start"
    pending = []            # chunked outputs of the current epoch, per pol
    pend_n = 0
    ngets = 0
    nsamples = 0
    faulted = False

    def flush():
        """Relational oracle: the epoch's chunks == one request on the twin."""
        nonlocal pending, pend_n
        if pend_n == 0:
            return
        one = twin.get_samples(pend_n)
        one = [np.asarray(one)] if not is_ant else [np.asarray(one[0][p]) for p in range(cfg["pols"])]
        for p in range(cfg["pols"]):
            cat = np.concatenate([ch[p] for ch in pending])
            ts = refs[p].last_epoch_ts
            tol = refs[p].value_tol(ts, refs[p].last_ttol) * 2
            ok = cat.shape == one[p].shape and np.all(np.abs(cat - one[p]) <= tol)
            if ok and dy and refs[p].noise_only:
                # nothing but seeded noise on exact times: bit for bit
                ok = np.array_equal(cat, one[p])
                ctx.hit("dyadic_bitwise")
            ctx.check(ok, "twin", "C10/twin/chunked_differs_from_one_shot/%s/chunks=%s" % (
                "dyadic" if dy else "float", "1" if len(pending) == 1 else "2+"),
                lambda: "pol %d: %d chunks, first diff at %s" % (p, len(pending), _fd(cat, one[p])))
        pending = []
        pend_n = 0

    epoch_ts = [[] for _ in refs]
    for op in _expanded(sc["ops"]):
        ctx.op(op["op"])
        kind = op["op"]
        if kind == "get" and last_ctrl == "fault":
            return              # no recovery op was issued (e.g. removed by the minimiser): nothing the statement defines
        if kind == "get":
            n = op["n"]
            if n == 1:
                ctx.hit("request_len_1")
            out = top.get_samples(n)
            out = np.asarray(out)
            ctx.event("get", out)
            if not ctx.check(all(t.intact() for t in user_tables), "custom", "C10/custom/array_returned_by_source_modified",
                             "the library wrote into the array a user source returned"):
                return
            ngets += 1
            nsamples += n
            if is_ant:
                if not ctx.check(out.shape == (1, cfg["pols"], n), "shape", "C10/antenna/shape",
                                 lambda: "got %s" % (out.shape,)):
                    return
                per_pol = [out[0][p] for p in range(cfg["pols"])]
            else:
                if not ctx.check(out.shape == (n,), "shape", "C10/stream/shape", lambda: "got %s" % (out.shape,)):
                    return
                per_pol = [out]
            pending.append(per_pol)
            pend_n += n
            for p, (s, ref) in enumerate(zip(streams, refs)):
                ts_ref = ref.times(n)
                t_tol = 0.0 if dy else ref.time_tol(n)
                ts_lib = np.asarray(s.ts)
                okt = ts_lib.shape == ts_ref.shape and (np.array_equal(ts_lib, ts_ref) if dy else
                                                        np.all(np.abs(ts_lib - ts_ref) <= t_tol))
                sig_t = "C10/time/after:%s/%s" % (last_ctrl, "dyadic" if dy else "float")
                if not ctx.check(okt, "time", sig_t,
                                 lambda: "pol %d: lib ts[0]=%r ts[-1]=%r ref %r %r tol %.3g (n=%d, len %s)" % (
                                     p, ts_lib[0], ts_lib[-1], ts_ref[0], ts_ref[-1], t_tol, n, ts_lib.shape)):
                    return
                z = ref.draw_noise(n)
                # evaluate the reference on the reference's own (exact) times
                want = ref.expected(ts_ref, z)
                got = per_pol[p]
                tol = ref.value_tol(ts_ref, t_tol)
                # stacking x and y in one array promotes a real pol next to a complex one
                any_cplx = any(cu["kind"] in CPLX_KINDS for sr in cfg["sources"] for cu in sr["customs"])
                dt_ok = np.iscomplexobj(got) == (np.iscomplexobj(want) or (is_ant and any_cplx))
                if np.iscomplexobj(got) and not np.iscomplexobj(want):
                    dt_ok = dt_ok and not np.any(got.imag)
                    got = got.real
                okv = got.shape == want.shape and dt_ok and np.all(np.abs(got - want) <= tol)
                if okv and ref.noise_only:
                    okv = np.array_equal(got, want)      # seeded noise: sample for sample, bitwise
                if not okv:
                    ctx.violation("value", "C10/value/%s/after:%s" % (_blame(ref, ts_ref, z, got, dy, t_tol), last_ctrl),
                                  "pol %d request %d (n=%d): first diff at %s" % (p, ngets, n, _fd(got, want)))
                    return
                ctx.checks += 1
                ref.advance(n)
                epoch_ts[p].append(ts_ref)
                ref.last_epoch_ts = np.concatenate(epoch_ts[p])
                ref.last_ttol = t_tol
            _clock_checks(ctx, top, streams, refs, is_ant, dy, False)
            if ngets == 129:
                ctx.hit("more_than_128_requests_on_one_object")
            if ngets >= 2:
                ctx.nontrivial = True
            last_ctrl_was = last_ctrl
            last_ctrl = "get"
        elif kind == "fault_get":
            flush()
            epoch_ts = [[] for _ in refs]
            p = op["pol"] % len(streams)
            t_ant = top.t_start
            gates[p].armed = True
            try:
                top.get_samples(op["n"])
                raised = False
            except InjectedCallbackError:
                raised = True
            gates[p].armed = False
            ctx.event("fault_get", raised)
            if not raised:
                return
            ctx.fired("source_callback_error")
            faulted = True
            if is_ant:
                ctx.check(top.t_start == t_ant, "clock", "C10/fault/antenna_clock_moved_by_failed_request", "")
            # what the failed request consumed from the generators is not specified: re-read, for reference and twin
            for k2, (st_, r_) in enumerate(zip(streams, refs)):
                r_.gen.bit_generator.state = copy.deepcopy(st_.rng.bit_generator.state)
                tstreams[k2].rng.bit_generator.state = copy.deepcopy(st_.rng.bit_generator.state)
            last_ctrl = "fault"
            continue
        else:
            if last_ctrl == "fault" and not is_ant and kind != "set_time":
                return          # a bare stream is only re-synchronised by set_time
            if last_ctrl == "fault" and kind == "update_noise":
                return          # not one of the documented ways of re-synchronising: nothing the statement defines
            flush()
            epoch_ts = [[] for _ in refs]
            if kind == "set_time":
                ctx.hit("control_set_time")
                top.set_time(op["t"])
                twin.set_time(op["t"])
                for r in refs:
                    r.set_time(op["t"])
                ok = all(s.t_start == op["t"] for s in streams) and top.t_start == op["t"]
                ctx.check(ok, "clock", "C10/clock/set_time_not_exact", "t_start != requested instant")
                _clock_checks(ctx, top, streams, refs, is_ant, dy, True)
            elif kind == "add_time":
                ctx.hit("control_add_time")
                top.add_time(op["t"])
                twin.add_time(op["t"])
                for r in refs:
                    r.add_time(op["t"])
                _clock_checks(ctx, top, streams, refs, is_ant, dy, True)
            elif kind == "reset_start":
                ctx.hit("control_reset_start")
                before = [s.t_start for s in streams]
                if is_ant:
                    top.reset_start()
                    twin.reset_start()
                else:
                    top.add_time(0)
                    twin.add_time(0)
                for r in refs:
                    r.add_time(0)
                if last_ctrl != "fault":       # after a failed request re-synchronising the streams is the point
                    ctx.check([s.t_start for s in streams] == before, "clock", "C10/clock/reset_start_moves_clock",
                              "reset_start changed t_start")
                _clock_checks(ctx, top, streams, refs, is_ant, dy, True)
            elif kind == "update_noise":
                ctx.hit("control_update_noise")
                p = op["pol"] % len(streams)
                s = streams[p]
                before = (s.t_start, s.start_obs)
                s.update_noise(op["m"])
                tstreams[p].update_noise(op["m"])
                refs[p].draw_noise(op["m"])
                ctx.check((s.t_start, s.start_obs) == before, "clock", "C10/clock/update_noise_moves_clock",
                          lambda: "before %r after %r" % (before, (s.t_start, s.start_obs)))
                ctx.event("update_noise", float(s.noise_std))
            if last_ctrl == "fault":
                ctx.hit("recovered_after_failed_request:" + kind)
            last_ctrl = kind
        if ctx.violations and ctx.stop_on_violation:
            return
    flush()
    ctx.sim_time += nsamples / cfg["fs"]
    sizes = sorted({("1" if op["n"] == 1 else "s" if op["n"] < 64 else "m" if op["n"] < 1024 else "l")
                    for op in sc["ops"] if op["op"] == "get"})
    ctx.fingerprint = [cfg["kind"], cfg["pols"], cfg["dyadic"], cfg["ascending"],
                       sorted({(s["noise"] is not None, len(s["chirps"]), tuple(sorted(c["kind"] for c in s["customs"])))
                               for s in cfg["sources"]}),
                       sizes, sorted({op["op"] for op in sc["ops"]})]


def _clock_checks(ctx, top, streams, refs, is_ant, dy, after_control):
    for s, r in zip(streams, refs):
        want = float(r.now())
        tol = 0.0 if dy else (2 * r.requests + 4) * core_ulp(max(r.tmax, abs(want)))
        ctx.check(abs(s.t_start - want) <= tol, "clock", "C10/clock/stream_clock_off/%s" % ("dyadic" if dy else "float"),
                  lambda: "t_start %r want %r tol %.3g" % (s.t_start, want, tol))
        ctx.check(bool(s.start_obs) == after_control, "clock", "C10/clock/start_obs_flag",
                  lambda: "start_obs=%r after %s" % (s.start_obs, "control op" if after_control else "request"))
    if is_ant:
        ctx.check(all(top.t_start == s.t_start for s in streams), "clock", "C10/antenna/clock_differs_from_streams",
                  lambda: "antenna %r streams %r" % (top.t_start, [s.t_start for s in streams]))
        ctx.check(bool(top.start_obs) == after_control, "clock", "C10/antenna/start_obs_flag", "antenna start_obs wrong")


def _fd(a, b):
    a, b = np.asarray(a), np.asarray(b)
    if a.shape != b.shape:
        return "shape %s vs %s" % (a.shape, b.shape)
    d = np.flatnonzero(a != b)
    if d.size == 0:
        return "none"
    i = int(d[0])
    return "index %d: %r vs %r" % (i, a.ravel()[i], b.ravel()[i])


def _blame(ref, ts, z, got, dy, t_tol):
    """Classify which component disagrees (for the signature)."""
    src = ref.src
    parts = []
    if np.iscomplexobj(got) != any(c["kind"] in CPLX_KINDS for c in src["customs"]) and (
            not np.iscomplexobj(got) or np.any(np.asarray(got).imag)):
        return "complex_promotion"
    if src["noise"] is not None and not src["chirps"] and not src["customs"]:
        return "noise"
    if src["noise"] is None and src["chirps"] and not src["customs"]:
        return "chirp"
    if src["noise"] is None and not src["chirps"] and src["customs"]:
        return "custom"
    if src["noise"] is not None:
        parts.append("noise")
    if src["chirps"]:
        parts.append("chirp")
    if src["customs"]:
        parts.append("custom")
    return "+".join(parts) if parts else "empty"
