"""C14 — injection onto existing RAW: exact decode, same framing, stationary gain.

RAW world.  A reader-of-streams (block by block from several files) combined
with state that must stay constant during a recording (the channelised
unit-noise deviations).  Inputs are recordings made by setigen in an earlier op
or files written by RefGuppi (so that the reader is tested on files setigen did
not produce).  Faults: directory-listing permutations while the backend is
built, an aborted injection followed by a retry on the same backend.
"""
import copy
import math
import os
from fractions import Fraction

import numpy as np

from ..models import guppi
from ..models import voltage as mv
from ..seams import _REAL_DEFAULT_RNG
from ..worlds import raw as W
from . import C02, C04

ID = "C14"
WORLD = "raw"
LEVEL = "exploration"
EST_RUN_S = 0.1
RULE = ("scenario = an input recording (made by setigen, or written by RefGuppi with seeded integer content; 4/8 bit, 1-2 "
        "pols, 1-3 antennas, DIRECTIO absent/0/1, header aligned or not, 1-3 files with the last one partial), a "
        "synthetic antenna (noise and/or tones), from_data(num_subblocks 1..W+3) under a permuted listing, "
        "estimate_channelized_stds(seed) beforehand (or not: then only framing is judged), and 1-2 record calls with "
        "requested length shorter/equal/longer/unspecified, digitise on/off, optionally aborted and retried; oracles: "
        "(a) every _read_next_block result == RefGuppi decode, (b) output framing == input framing and block count = "
        "min(requested, input), (c) every output sample == RefQuant(input + RefQuant0(RefPFB(synthetic))) with the "
        "deviations snapshotted before the recording; non-trivial = a completed injection judged by (c) with >= 2 "
        "sub-block calls; distinct = abstract fingerprint")
COMPONENTS = {"real": ["setigen.voltage.backend (from_data, _read_next_block, collect_data_block, record)",
                       "setigen.voltage.raw_utils", "setigen.voltage.polyphase_filterbank.estimate_channelized_stds",
                       "real files in a per-run scratch dir"],
              "stub": ["RefGuppi writer for foreign input files", "glob seam", "open() wrapper (faults)", "entropy seam",
                       "antenna.get_samples wrapper (request log)"]}
ASSUMPTIONS = ["from_data builds its own requantiser (ComplexQuantizer defaults: refresh every call, 10000 samples)",
               "a sub-block whose inner (synthetic) quantisation sits within 1e-7 of a rounding boundary is not value-judged",
               "NPOL=4 in an input header denotes two polarisations (GUPPI convention)"]
PROBES = ["num_subblocks_reassigned_between_recordings", "stream_silent_for_whole_subblocks", "input_path_held_another_recording_of_same_size", "input_by_refguppi", "input_by_setigen", "four_bit", "input_unpadded", "input_aligned_header", "multi_file_input",
          "last_file_partial", "length_longer_than_input", "length_shorter_than_input", "length_unspecified",
          "digitize_on", "unseeded_estimate_framing_only", "retry_after_fault", "array_source", "listing_permuted",
          "second_injection_same_backend", "per_stream_digitiser_targets"]


def gen_input_header_extras(rng):
    n_pad = rng.choice([0, 0, 1, 2, 5, 9, 13, 17, 21, 31])
    return n_pad


def generate(rng, tier):
    ant = W.gen_antenna(rng)
    # the synthetic antenna: keep content simple (a tone and maybe noise)
    el = W.gen_elements(rng, tier)
    el["T"] = rng.choice([1, 2, 2, 4])
    el["B"] = rng.choice([4, 8, 8, 16, 32])
    el["req"]["tmean"] = 0          # from_data builds its own requantiser
    if rng.random() < 0.7:
        el["dig"]["tmean"] = 0
    # SCALE: production-sized input blocks - more than 2**20 samples per antenna/polarisation component, loud enough
    # that their sum of squares passes 2**31 (single-pass statistics in a narrow integer type only go wrong there)
    heavy = rng.random() < (0.012 if tier == "quick" else 0.06)
    if heavy:
        for _ in range(6):
            if ant["n_ant"] * ant["pols"] <= 2:
                break
            ant = W.gen_antenna(rng)
        el["T"], el["B"], el["bits"] = rng.choice([1, 2]), 64, 8
        el["req"]["fwhm"] = 32
    be = W.gen_backend(rng, ant, el, wide=(2.5 * ant["n_ant"] * ant["pols"]) if heavy else False)
    if ant["kind"] == "single" and rng.random() < 0.2 and not heavy:
        # one stream carries nothing but a pulsed tone: exactly zero for whole sub-blocks at a time
        sub = max(be["spb"] * el["B"] // max(be["num_subblocks"], 1), el["T"] * el["B"])
        st = ant["streams"][0][rng.randrange(ant["pols"])]
        st["noise"], st["tones"] = None, []
        st["gated"] = {"fs": ant["fs"], "t0": ant["t_start"], "period": sub * rng.choice([1, 1, 2, 3]), "level": rng.choice([1.0, 5.0]),
                       "f_off": rng.choice([0.013, 0.1, 0.21]) * ant["fs"] / 2}
    source = rng.choice(["ref", "ref", "setigen"])
    n_in = rng.choice([1, 2, 3, 4, 5, 5, 9, 14])
    bpf = rng.choice([1, 2, 2, 3, 4, 8, 16])
    inp = {"source": source, "blocks": n_in, "blocks_per_file": bpf, "directio": rng.choice([None, 0, 1, 1]),
           "n_pad": gen_input_header_extras(rng), "seed": rng.randrange(1 << 30), "npol4": rng.random() < 0.3,
           "std": rng.choice([1.0, 3.0, 10.0, 20.0]), "digitize": rng.random() < 0.7, "template": rng.random() < 0.3,
           "ant_seed": rng.randrange(1 << 30)}
    if source == "ref" and rng.random() < 0.25:
        inp["stale"] = rng.choice(["bits", "bits", "chans", "pkt"])
    if heavy:
        inp.update(source="ref", blocks=rng.choice([1, 2]), std=rng.choice([46.0, 60.0]), npol4=False)
        inp.pop("stale", None)
        n_in = inp["blocks"]
    ops = []
    for _ in range(rng.choice([1, 1, 2, 2]) if not heavy else 1):
        r = rng.random()
        if r < 0.3:
            length = {"mode": "none"}
        elif r < 0.75:
            length = {"mode": "num_blocks", "n": rng.choice([1, 2, n_in, n_in, n_in + 1, n_in + 3])}
        else:
            length = {"mode": "obs_length", "k": rng.choice([1, n_in, n_in + 2]), "half": rng.random() < 0.5}
        op = {"op": "inject", "length": length, "digitize": rng.random() < 0.6}
        if ops and rng.random() < 0.4:
            op["set_subblocks"] = rng.randint(1, be["W"] + 2) if not heavy else rng.choice([1, 2, 5])
        if rng.random() < 0.12:
            op["fault"] = rng.choice([{"kind": "enospc", "at": rng.randint(1, 60)}, {"kind": "source", "at": rng.randint(1, 4)},
                                      {"kind": "open", "at": rng.randint(1, 3)}])
        ops.append(op)
    return {"seams": {"clock_origin": 1.7e9 + rng.randrange(10 ** 6), "clock_jitter_seed": rng.randrange(1 << 20),
                      "entropy_salt": rng.randrange(1 << 20), "scratch": "c14", "listing": rng.choice(["sorted", "reverse", rng.randrange(1, 1 << 16)])},
            "ant": ant, "el": el, "be": be, "input": inp,
            "dig_fwhms": ([[rng.choice([32, 12, 8, 20]) for _ in range(ant["pols"])] for _ in range(ant["n_ant"])]
                          if rng.random() < 0.35 else None),
            "from_data": {"num_subblocks": rng.randint(1, be["W"] + 3) if not heavy else rng.choice([1, 2, 3, 8, 32]), "estimate_seed": rng.choice([None, rng.randrange(1 << 30), rng.randrange(1 << 30), rng.randrange(1 << 30)]),
                          "factor": rng.choice([50, 200, 1000])},
            "ops": ops}


def simplify(sc):
    for c in C02.simplify(sc):
        if c["be"]["block_size"] != sc["be"]["block_size"] or c["ant"]["pols"] != sc["ant"]["pols"] or \
                c["ant"]["n_ant"] != sc["ant"]["n_ant"] or c["be"]["num_chans"] != sc["be"]["num_chans"]:
            # geometry changes are fine: the input is regenerated from the same spec
            pass
        yield c
    inp = sc["input"]
    for key, v in (("blocks", 1), ("blocks_per_file", 1), ("n_pad", 0), ("directio", None), ("npol4", False),
                   ("source", "ref"), ("template", False)):
        if inp[key] != v:
            c = copy.deepcopy(sc)
            c["input"][key] = v
            yield c
    if inp["blocks"] > 1:
        c = copy.deepcopy(sc)
        c["input"]["blocks"] -= 1
        yield c
    fd = sc["from_data"]
    if fd["num_subblocks"] > 1:
        for v in (1, fd["num_subblocks"] - 1):
            c = copy.deepcopy(sc)
            c["from_data"]["num_subblocks"] = v
            yield c
    if sc["seams"].get("listing") != "sorted":
        c = copy.deepcopy(sc)
        c["seams"]["listing"] = "sorted"
        yield c
    for j, op in enumerate(sc["ops"]):
        if op.get("fault"):
            c = copy.deepcopy(sc)
            c["ops"][j]["fault"] = None
            yield c
        if op["length"]["mode"] != "none":
            c = copy.deepcopy(sc)
            c["ops"][j]["length"] = {"mode": "none"}
            yield c
        if op["digitize"]:
            c = copy.deepcopy(sc)
            c["ops"][j]["digitize"] = False
            yield c


# ---------------------------------------------------------------------------
# input made by RefGuppi

def write_ref_input(ctx, sc, stem, variant=None):
    """variant: an earlier, different recording of exactly the same byte size under the same name."""
    ant, el, be, inp = sc["ant"], sc["el"], sc["be"], sc["input"]
    exp = C04.expected_owned(ant, el, be, inp["blocks"])
    obsnchan = be["num_chans"] * ant["n_ant"]
    rng = _REAL_DEFAULT_RNG([inp["seed"], 3])
    lo, hi = -2 ** (el["bits"] - 1), 2 ** (el["bits"] - 1) - 1
    std = inp["std"] if el["bits"] == 8 else min(inp["std"], 2.5)
    headers, datas = [], []
    for b in range(inp["blocks"]):
        h = {"BACKEND": "GUPPI", "TELESCOP": "GBT", "OBSERVER": "someone", "SRC_NAME": "VOYAGER1"}
        for i in range(inp["n_pad"]):
            h["PAD%02d" % i] = i
        h.update({"NBITS": el["bits"], "NPOL": 4 if (inp["npol4"] and ant["pols"] == 2) else ant["pols"], "OBSNCHAN": obsnchan,
                  "BLOCSIZE": be["block_size"], "TBIN": exp["TBIN"], "CHAN_BW": exp["CHAN_BW"], "OBSBW": exp["OBSBW"],
                  "OBSFREQ": exp["OBSFREQ"], "SCANLEN": exp["SCANLEN"]})
        if ant["kind"] == "array":
            h["NANTS"] = ant["n_ant"]
        if inp["directio"] is not None:
            h["DIRECTIO"] = inp["directio"]
        h["PKTIDX"] = b * be["spb"]
        h["PKTSTART"] = 0
        h["PKTSTOP"] = inp["blocks"] * be["spb"]
        re = np.clip(np.around(rng.normal(0.7, std, size=(obsnchan, be["spb"], ant["pols"]))), lo, hi)
        im = np.clip(np.around(rng.normal(-0.4, std * 0.8, size=(obsnchan, be["spb"], ant["pols"]))), lo, hi)
        if variant == "bits":
            h["NBITS"] = 12 - el["bits"]
        elif variant == "chans":
            h["OBSNCHAN"] = obsnchan * 2
        elif variant == "pkt":
            h["PKTIDX"] = 7 + b * be["spb"]
        headers.append(h)
        datas.append(guppi.encode_block((re + 1j * im) if variant is None else (im + 1j * re), el["bits"]))
    bpf = inp["blocks_per_file"]
    for f in range(-(-inp["blocks"] // bpf)):
        data = guppi.write_blocks(headers[f * bpf:(f + 1) * bpf], datas[f * bpf:(f + 1) * bpf])
        with open("%s.%04d.raw" % (stem, f), "wb") as fh:
            fh.write(data)


def write_setigen_input(ctx, sc, stem):
    ant, el, be, inp = sc["ant"], sc["el"], sc["be"], sc["input"]
    a = W.build_antenna(dict(ant, seed=inp["ant_seed"]))
    b = W.build_backend(a, el, dict(be, blocks_per_file=inp["blocks_per_file"]))
    hd = {"PAD%02d" % i: i for i in range(inp["n_pad"])}
    if inp["directio"] is not None:
        hd["DIRECTIO"] = inp["directio"]
    b.record(stem, num_blocks=inp["blocks"], length_mode="num_blocks", header_dict=hd, digitize=inp["digitize"],
             load_template=inp["template"], verbose=False)


# ---------------------------------------------------------------------------

def expected_output(sc, in_blocks, reqs, digitize, cstds, n_out, ctx):
    """Reference of oracle (c).  Returns {(a,p): (pre_r, pre_i, skip_mask_rows)} over the
    output stream [spectrum, chan]."""
    ant, el, be = sc["ant"], sc["el"], sc["be"]
    T, B = el["T"], el["B"]
    bits = el["bits"]
    nch, spb = be["num_chans"], be["spb"]
    obsnchan = nch * ant["n_ant"]
    h = mv.ref_window(T, B, el["window"])
    counts = W.chunk_spectra(reqs, T, B)
    zin = [guppi.decode_block(b["data"], obsnchan, ant["pols"], bits) for b in in_blocks[:n_out]]
    out = {}
    fw = sc.get("dig_fwhms")
    for a in range(ant["n_ant"]):
        for p in range(ant["pols"]):
            dig_tstd = (fw[a][p] if fw else el["dig"]["fwhm"]) / mv.FWHM
            dig_tmean = el["dig"].get("tmean", 0)
            chunks = [np.asarray(r[a][p]) for r in reqs]
            tie_risk = False
            if digitize:
                dq = mv.RefQuant(dig_tmean, dig_tstd, el["dig"]["bits"], el["dig"]["period"], el["dig"]["ncalc"])
                qs = []
                for c in chunks:
                    pre, _ = dq.pre(c)
                    if np.any(np.abs(pre - np.floor(pre) - 0.5) < 1e-9):
                        tie_risk = True
                    qs.append(mv.quant_round(pre, el["dig"]["bits"]).astype(float))
                x = np.concatenate(qs)
            else:
                x = np.concatenate(chunks)
            spec = mv.ref_pfb(x, T, B, h)[:, be["start_chan"]:be["start_chan"] + nch]
            cs = np.array(cstds[(a, p)], dtype=float) * (dig_tstd if digitize else 1.0)
            pre_r = np.zeros((n_out * spb, nch))
            pre_i = np.zeros((n_out * spb, nch))
            skip = np.zeros(n_out * spb, dtype=bool)
            m = 0
            for c in counts:
                if m >= n_out * spb:
                    break
                b = m // spb
                t0 = m - b * spb
                v = spec[m:m + c]
                zb = zin[b][a * nch:(a + 1) * nch, :, p]          # [chan, time]
                R, I = zb.real, zb.imag
                tstats = ((float(np.mean(R)), float(np.std(R))), (float(np.mean(I)), float(np.std(I))))
                inp = zb[:, t0:t0 + c].T                           # [rows, chan]
                for part, (vv, ii, (tm, ts), cstd, dst) in enumerate(((v.real, inp.real, tstats[0], cs[0], pre_r),
                                                                      (v.imag, inp.imag, tstats[1], cs[1], pre_i))):
                    mean1, _ = mv.prefix_stats(vv, 10000)
                    pre1 = mv.quant_pre(vv, mean1, cstd, 0.0, ts)
                    if np.any(np.abs(pre1 - np.floor(pre1) - 0.5) < 1e-7 * np.maximum(1.0, np.abs(pre1))) or tie_risk:
                        skip[m:m + c] = True
                    q1 = mv.quant_round(pre1, bits).astype(float)
                    v2 = q1 + ii
                    mean2, std2 = mv.prefix_stats(v2, 10000)
                    dst[m:m + c] = mv.quant_pre(v2, mean2, std2, tm, ts)
                m += c
            out[(a, p)] = (pre_r, pre_i, skip)
    return out, counts


def execute(sc, ctx):
    import setigen.voltage as sv
    ant, el, be, inp, fdc = sc["ant"], sc["el"], sc["be"], sc["input"], sc["from_data"]
    seams = ctx.seams
    bits = el["bits"]
    if bits == 4:
        ctx.hit("four_bit")
    if ant["kind"] == "array":
        ctx.hit("array_source")
    if any(st.get("gated") for strs in ant["streams"] for st in strs):
        ctx.hit("stream_silent_for_whole_subblocks")
    in_stem = seams.path("in")
    seams.listing = "sorted"
    if inp["source"] == "ref":
        if inp.get("stale"):
            # the input path held another recording of the same size before, and the library has looked at it
            write_ref_input(ctx, sc, in_stem, variant=inp["stale"])
            ru = sv.raw_utils
            for fn in (lambda: ru.read_header(in_stem + ".0000.raw"), lambda: ru.get_raw_params(in_stem, be["start_chan"]),
                       lambda: ru.get_blocks_per_file(in_stem), lambda: ru.get_total_blocks(in_stem),
                       lambda: sv.RawVoltageBackend.from_data(in_stem, W.build_antenna(ant), start_chan=be["start_chan"],
                                                              num_subblocks=fdc["num_subblocks"])):
                try:
                    fn()
                except Exception:
                    pass
            ctx.hit("input_path_held_another_recording_of_same_size")
        write_ref_input(ctx, sc, in_stem)
        ctx.hit("input_by_refguppi")
    else:
        write_setigen_input(ctx, sc, in_stem)
        ctx.hit("input_by_setigen")
    files, per_file, in_blocks = W.parse_recording(in_stem)
    n_in = len(in_blocks)
    hb = in_blocks[0]
    if not guppi.directio_on(hb["header"]):
        ctx.hit("input_unpadded")
    if hb["header_bytes"] % 512 == 0:
        ctx.hit("input_aligned_header")
    if len(files) > 1:
        ctx.hit("multi_file_input")
        if per_file[-1] != per_file[0]:
            ctx.hit("last_file_partial")
    ctx.event("input", [bytes(b["data"]) for b in in_blocks])
    # ---- build from the input under a permuted listing ---------------------------
    antenna = W.build_antenna(ant)
    log = W.RequestLog(antenna, ctx)
    dig, fb, _ = W.build_elements(el)
    fw = sc.get("dig_fwhms")
    if fw:
        # documented alternative: a 2-D list of quantisers / filterbanks of shape (num_antennas, num_pols)
        import copy as _copy
        import setigen.voltage as _sv
        dig = [[_sv.RealQuantizer(target_mean=el["dig"].get("tmean", 0), target_fwhm=fw[a][p], num_bits=el["dig"]["bits"],
                                  stats_calc_period=el["dig"]["period"],
                                  stats_calc_num_samples=el["dig"]["ncalc"]) for p in range(ant["pols"])] for a in range(ant["n_ant"])]
        fb = [[_copy.deepcopy(fb) for p in range(ant["pols"])] for a in range(ant["n_ant"])]
        if len({x for row in fw for x in row}) > 1:
            ctx.hit("per_stream_digitiser_targets")
    seams.listing = sc["seams"].get("listing", "sorted")
    if seams.listing != "sorted" and len(files) > 1:
        ctx.hit("listing_permuted")
    try:
        backend = sv.RawVoltageBackend.from_data(in_stem, antenna, digitizer=dig, filterbank=fb,
                                                 start_chan=be["start_chan"], num_subblocks=fdc["num_subblocks"])
    except Exception as e:
        ctx.violation("from_data", "C14/from_data/raises:%s@%s" % (type(e).__name__, W.innermost_setigen_frame(e)), repr(e))
        return
    finally:
        seams.listing = "sorted"
    cls = "directio=%d,%s" % (1 if guppi.directio_on(hb["header"]) else 0, "aligned" if hb["header_bytes"] % 512 == 0 else "unaligned")
    ok = ctx.check(backend.input_num_blocks == n_in, "construct", "C14/construct/input_num_blocks/" + cls,
                   lambda: "library %r, RefGuppi %d (files %s)" % (backend.input_num_blocks, n_in, per_file))
    ok &= ctx.check(backend.blocks_per_file == per_file[0], "construct", "C14/construct/blocks_per_file/" + cls,
                    lambda: "library %r, RefGuppi %d" % (backend.blocks_per_file, per_file[0]))
    ok &= ctx.check(backend.header_size == hb["data_offset"] - hb["offset"], "construct", "C14/construct/header_size/" + cls,
                    lambda: "library %r, RefGuppi %d" % (backend.header_size, hb["data_offset"] - hb["offset"]))
    ok &= ctx.check((backend.block_size, backend.num_bits, backend.num_chans, backend.num_pols, backend.num_antennas) ==
                    (be["block_size"], bits, be["num_chans"], ant["pols"], ant["n_ant"]), "construct",
                    "C14/construct/parameters", lambda: "%r" % ((backend.block_size, backend.num_bits, backend.num_chans,
                                                                 backend.num_pols, backend.num_antennas),))
    if not ok:
        return
    # channelised unit-noise deviations, seeded by the workload (or not)
    seeded = fdc["estimate_seed"] is not None
    cstds = {}
    if seeded:
        for a in range(ant["n_ant"]):
            for p in range(ant["pols"]):
                f = backend.filterbank[a][p]
                f.estimate_channelized_stds(factor=fdc["factor"], seed=fdc["estimate_seed"] + 17 * a + p)
                cstds[(a, p)] = np.array(f.channelized_stds, dtype=float, copy=True)
    else:
        ctx.hit("unseeded_estimate_framing_only")
    # oracle (a): wrap _read_next_block on the instance
    decoded = []
    real_read = backend._read_next_block

    def spy():
        v = real_read()
        stats = [[(q.quantizer_r.target_mean, q.quantizer_r.target_std, q.quantizer_i.target_mean, q.quantizer_i.target_std)
                  for q in row] for row in backend.requantizer]
        decoded.append((np.array(v, copy=True), stats))
        return v
    backend._read_next_block = spy
    obsnchan = be["num_chans"] * ant["n_ant"]
    tpb = Fraction(be["spb"] * el["B"]) / Fraction(ant["fs"])
    ninj = 0
    for j, op in enumerate(sc["ops"]):
        if op.get("set_subblocks") and j > 0:
            # the memory knob re-assigned on a backend that has already recorded
            backend.num_subblocks = op["set_subblocks"]
            ctx.hit("num_subblocks_reassigned_between_recordings")
        ctx.op("inject" + ("+fault" if op.get("fault") else "") + "/" + op["length"]["mode"])
        L = op["length"]
        rec = {"digitize": op["digitize"], "template": False}
        if L["mode"] == "none":
            want_n = n_in
            ctx.hit("length_unspecified")
        elif L["mode"] == "num_blocks":
            rec["num_blocks"] = L["n"]
            want_n = min(L["n"], n_in)
        else:
            k = L["k"]
            rec["obs_length"] = float(tpb * (k + (Fraction(1, 2) if L["half"] else Fraction(1, 4))))
            want_n = min(k, n_in)
        if L["mode"] != "none":
            req_n = L.get("n", L.get("k"))
            if req_n > n_in:
                ctx.hit("length_longer_than_input")
            elif req_n < n_in:
                ctx.hit("length_shorter_than_input")
        if op["digitize"]:
            ctx.hit("digitize_on")
        attempts = [dict(rec, fault=op.get("fault"))] if not op.get("fault") else [dict(rec, fault=op["fault"]), dict(rec)]
        status = None
        for a_i, o in enumerate(attempts):
            o["_log"] = log
            mark = log.mark()
            del decoded[:]
            out_stem = seams.path("out%d_%d" % (j, a_i))
            if L["mode"] == "none":
                # neither num_blocks nor obs_length given
                status, exc = _record_unspecified(ctx, backend, out_stem, o)
            else:
                status, exc = W.do_record(ctx, backend, out_stem, o, header={})
            if status == "fault":
                ctx.event("aborted")
                continue
            if a_i == 1:
                ctx.hit("retry_after_fault")
            break
        if status == "fault":
            continue
        if status != "ok":
            ctx.violation("record", "C14/record/raises:%s@%s/%s" % (type(exc).__name__, W.innermost_setigen_frame(exc), cls), repr(exc))
            return
        if ninj >= 1:
            ctx.hit("second_injection_same_backend")
        ninj += 1
        # ---- (b) framing ---------------------------------------------------------
        try:
            ofiles, oper_file, out_blocks = W.parse_recording(out_stem)
        except guppi.GuppiFormatError as e:
            ctx.violation("framing", "C14/framing/" + e.cls, str(e))
            return
        ctx.event("output", [bytes(b["data"]) for b in out_blocks])
        if not ctx.check(len(out_blocks) == want_n, "framing", "C14/framing/block_count/%s" % L["mode"],
                         lambda: "output has %d blocks, requested %r, input %d" % (len(out_blocks), L, n_in)):
            return
        hi_, ho = hb["header"], out_blocks[0]["header"] if out_blocks else {}
        for k2 in ("BLOCSIZE", "NBITS", "OBSNCHAN"):
            if out_blocks and not ctx.check(ho.get(k2) == hi_.get(k2), "framing", "C14/framing/" + k2,
                                            lambda: "output %r input %r" % (ho.get(k2), hi_.get(k2))):
                return
        if out_blocks:
            npi = 2 if hi_.get("NPOL") == 4 else hi_.get("NPOL")
            npo = 2 if ho.get("NPOL") == 4 else ho.get("NPOL")
            ctx.check(npi == npo, "framing", "C14/framing/NPOL", lambda: "output %r input %r" % (ho.get("NPOL"), hi_.get("NPOL")))
            ctx.check(int(ho.get("NANTS", 1)) == int(hi_.get("NANTS", 1)), "framing", "C14/framing/NANTS",
                      lambda: "output %r input %r" % (ho.get("NANTS"), hi_.get("NANTS")))
        # ---- (a) decode ----------------------------------------------------------
        if not ctx.check(len(decoded) == want_n, "decode", "C14/decode/blocks_read",
                         lambda: "%d input blocks read for %d output blocks" % (len(decoded), want_n)):
            return
        for b_i, (arr, stats) in enumerate(decoded):
            z = guppi.decode_block(in_blocks[b_i]["data"], obsnchan, ant["pols"], bits)      # [c, t, p]
            want = z.reshape(obsnchan, -1)
            if not ctx.check(arr.shape == want.shape and np.array_equal(arr, want), "decode", "C14/decode/%dbit/%s" % (bits, cls),
                             lambda: "input block %d: decoded array differs from RefGuppi: %s" % (b_i, _fd(arr, want))):
                return
            for a in range(ant["n_ant"]):
                for p in range(ant["pols"]):
                    zb = z[a * be["num_chans"]:(a + 1) * be["num_chans"], :, p]
                    w = (float(np.mean(zb.real)), float(np.std(zb.real)), float(np.mean(zb.imag)), float(np.std(zb.imag)))
                    g = tuple(float(x) for x in stats[a][p])
                    if not ctx.check(np.allclose(g, w, rtol=1e-12, atol=1e-12), "decode", "C14/decode/target_stats",
                                     lambda: "block %d ant %d pol %d: target stats %r, block stats %r" % (b_i, a, p, g, w)):
                        return
        # ---- (c) content -----------------------------------------------------------
        if seeded and out_blocks:
            reqs = log.since(mark)
            exp, counts = expected_output(sc, in_blocks, reqs, op["digitize"], cstds, want_n, ctx)
            got = W.decoded_stream(out_blocks, ant, el, be)
            if len(counts) >= 2:
                ctx.nontrivial = True
            for key in sorted(got):
                pr, pi, skip = exp[key]
                g = got[key]
                if g.shape != pr.shape:
                    ctx.violation("content", "C14/content/count", "recorded %s, reference %s" % (g.shape, pr.shape))
                    return
                keep = ~skip
                ctx.ties += int(np.count_nonzero(skip))
                for name, part, pre in (("re", g.real, pr), ("im", g.imag, pi)):
                    gi = np.around(part).astype(np.int64)[keep]
                    okc, nt, bad = mv.compare_quantised(gi, pre[keep], bits, tie=1e-7)
                    ctx.ties += nt
                    ctx.checks += 1
                    if not okc:
                        rows = np.flatnonzero(keep)
                        m, c = divmod(bad, pre.shape[1])
                        m = int(rows[m])
                        first_chunk = m < counts[0]
                        ctx.violation("content", "C14/content/%s/digitize=%d/%s" % (
                            "first_subblock" if first_chunk else "later_subblock", int(op["digitize"]),
                            "first_injection" if ninj == 1 else "repeat_injection"),
                            "antenna/pol %s %s: spectrum %d chan %d: recorded %d, reference pre-rounding %.9g (chunks %s)" % (
                                key, name, m, c, gi.ravel()[bad], pre[keep].ravel()[bad], counts))
                        return
            # the stored deviations must still be what they were before the recording
            for (a, p), before in cstds.items():
                now = np.asarray(backend.filterbank[a][p].channelized_stds, dtype=float)
                if not ctx.check(np.array_equal(now, before), "gain", "C14/gain/channelized_stds_changed_during_recording",
                                 lambda: "ant %d pol %d: %r -> %r" % (a, p, before, now)):
                    return
        elif not seeded:
            sites = [s for s in seams.unseeded if "estimate_channelized_stds" in s]
            if out_blocks and ninj == 1:
                ctx.check(len(sites) == ant["n_ant"] * ant["pols"], "entropy", "C14/entropy/unseeded_estimate_count",
                          lambda: "%d unseeded estimates for %d (antenna, pol) pairs" % (len(sites), ant["n_ant"] * ant["pols"]))
            ctx.nontrivial = ctx.nontrivial or bool(out_blocks)
        ctx.sim_time += want_n * be["spb"] * el["B"] / ant["fs"]
        if ctx.violations and ctx.stop_on_violation:
            return
    ctx.fingerprint = [inp["source"], ant["kind"], ant["n_ant"], ant["pols"], bits, cls, len(files), per_file[-1] != per_file[0],
                       seeded, sorted({(o["length"]["mode"], o["digitize"], bool(o.get("fault"))) for o in sc["ops"]}, key=str),
                       "1" if fdc["num_subblocks"] == 1 else ("<=W" if fdc["num_subblocks"] <= be["W"] else ">W")]


def _record_unspecified(ctx, backend, stem, o):
    """record() with neither obs_length nor num_blocks: whole input."""
    o = dict(o)
    o.pop("num_blocks", None)
    o.pop("obs_length", None)
    seams = ctx.seams
    fault = o.get("fault")
    log = o.get("_log")
    if fault:
        k = fault["kind"]
        if k in ("enospc", "eio"):
            seams.nwrites = 0
            seams.write_fault = {"at_write": fault["at"], "kind": k}
        elif k == "open":
            seams.nopens = 0
            seams.open_fault = {"at_open": fault["at"], "kind": "eacces"}
        elif k == "source":
            log.count = 0
            log.fail_at = fault["at"]
    try:
        backend.record(stem, header_dict={}, digitize=o["digitize"], load_template=False, verbose=False)
        return "ok", None
    except Exception as e:
        injected = "injected" in str(e)
        return ("fault" if injected else "error"), e
    finally:
        seams.write_fault = None
        seams.open_fault = None
        if log is not None:
            log.fail_at = None


def _fd(a, b):
    a, b = np.asarray(a), np.asarray(b)
    if a.shape != b.shape:
        return "shape %s vs %s" % (a.shape, b.shape)
    d = np.flatnonzero(a.ravel() != b.ravel())
    if d.size == 0:
        return "none"
    i = int(d[0])
    return "flat index %d: %r vs %r" % (i, a.ravel()[i], b.ravel()[i])
