"""Program executor for C12: runs a list of cross-world operations on real
setigen objects inside a forked sub-child and logs one event (name + digest of
observables) per operation.  The C12 coordinator compares the event logs of
executions that differ only in what the library must not depend on.

Also holds the within-run oracles of C12: copy / pickle equality, mutation
isolation over *all* live frames after every op, and "different seeds differ".
"""
import copy
import os

import numpy as np
from ..seams import _REAL_DEFAULT_RNG

from ..models import guppi
from ..worlds import frame as F
from ..worlds import raw as W

ID = "C12"
WORLD = "all"
INSTALL_SEAMS = True


def frame_obs(fr):
    return [np.asarray(fr.data), np.asarray(fr.fs), np.asarray(fr.ts), float(fr.t_start), str(fr.source_name), float(fr.df),
            float(fr.dt), float(fr.fch1), bool(fr.ascending), float(fr.noise_mean), float(fr.noise_std),
            {str(k): (v if isinstance(v, (int, float, str, bool)) else repr(v)) for k, v in fr.metadata.items()}]


def frame_equal(a, b):
    """Attributes a copy must share with its original."""
    bad = []
    if a.data.shape != b.data.shape or not np.array_equal(a.data, b.data, equal_nan=True) or a.data.dtype != b.data.dtype:
        bad.append("data")
    for k in ("fs", "ts"):
        if not np.array_equal(getattr(a, k), getattr(b, k)):
            bad.append(k)
    for k in ("df", "dt", "fch1", "ascending", "t_start", "source_name", "noise_mean", "noise_std", "fchans", "tchans", "shape",
              "fmin", "fmax", "chi2_df"):
        x, y = getattr(a, k), getattr(b, k)
        if not (x == y or (isinstance(x, float) and x != x and y != y)):
            bad.append(k)
    if a.metadata != b.metadata:
        bad.append("metadata")
    if repr(a.rng.bit_generator.state) != repr(b.rng.bit_generator.state):
        bad.append("rng")
    return bad


def file_obs(path):
    """Observable content of a saved file (.fil: bytes; .h5: datasets and attributes — HDF5 bytes
    may legitimately embed library bookkeeping)."""
    if path.endswith(".fil"):
        with open(path, "rb") as f:
            return [f.read()]
    import h5py
    out = []
    with h5py.File(path, "r") as h:
        d = h["data"]
        out.append(np.asarray(d[...]))
        for k in sorted(d.attrs):
            v = d.attrs[k]
            if isinstance(v, bytes):
                v = v.decode("latin1")
            out.append((k, v if isinstance(v, (int, float, str)) else np.asarray(v).tolist()))
    return out


def execute(sc, ctx):
    import setigen as stg
    import setigen.voltage as sv
    seams = ctx.seams
    frames = {}          # id -> Frame
    fdig = {}            # id -> digest (all-objects invariant)
    ants, backends, logs = {}, {}, {}
    user_dicts = {}
    rec_marks = {}
    program = sc["program"]

    rng_group = {}       # derived frames (slice, dedrift, integrate) are handed their parent's generator: a documented
    #                      sharing, not covered by "a copied or unpickled frame is fully independent"

    def _dig(fr):
        full = F.state_fields(fr)
        rng = full.pop("rng")
        from ..core import digest
        return digest(np.asarray(fr.data), *[full[k] if not isinstance(full[k], dict) else repr(sorted(full[k].items(), key=str))
                                             for k in sorted(full)]), rng

    def touch(fid):
        fdig[fid] = _dig(frames[fid])

    def others_unchanged(opname, touched):
        tgroups = {rng_group.get(t) for t in touched}
        for k, fr in frames.items():
            if k in touched:
                continue
            d, r = _dig(fr)
            if d != fdig[k][0] or (rng_group.get(k) not in tgroups and r != fdig[k][1]):
                ctx.violation("isolation", "C12/isolation/%s_changed_another_frame/%s" % (
                    opname, "random_state" if d == fdig[k][0] else "content"),
                    "op %s on frame(s) %s changed frame %s" % (opname, sorted(touched), k))
                return False
            fdig[k] = (d, r)
        return True

    for j, op in enumerate(program):
        kind = op["op"]
        ctx.op(kind)
        touched = set()
        try:
            if kind == "np_legacy_seed":
                np.random.seed(op["seed"])              # the library must not draw from numpy's global state
                ctx.event(kind)
            elif kind == "f_create":
                fr, info = F.build_frame(op["spec"], ctx)
                if op.get("marker") and not np.any(fr.data):
                    fr.data += F.marker_data(op["spec"]).astype(fr.data.dtype)
                frames[op["id"]] = fr
                rng_group[op["id"]] = ("own", op["id"])
                touched.add(op["id"])
                ctx.event(kind, *frame_obs(fr))
            elif kind in ("f_noise", "f_obs", "f_inject", "f_zero", "f_meta"):
                if op["id"] not in frames:
                    continue
                fr = frames[op["id"]]
                touched.add(op["id"])
                if kind == "f_noise":
                    if op["kind"] == "chi2":
                        if fr.chi2_df <= 0:
                            continue
                        ret = fr.add_noise(op["x_mean"])
                    elif op["kind"] == "truncated":
                        ret = fr.add_noise(op["x_mean"], op["x_std"], op["x_min"], noise_type="gaussian")
                    else:
                        ret = fr.add_noise(op["x_mean"], op["x_std"], noise_type="gaussian")
                elif kind == "f_obs":
                    if op["kind"] == "chi2" and fr.chi2_df <= 0:
                        continue
                    ret = fr.add_noise_from_obs(noise_type=op["kind"], share_index=op["share"])
                elif kind == "f_inject":
                    g = {"fchans": fr.fchans, "tchans": fr.tchans, "df": fr.df, "dt": fr.dt}
                    sig = op["sig"]
                    path, tp, fp, bpp = F.signal_components(sig, g, fr.tchans, fr.fmin, fs_len=fr.fchans)
                    ret = fr.add_signal(path, tp, fp, bpp, **{k: v for k, v in sig["opts"].items() if k != "integrate_f_profile"})
                elif kind == "f_zero":
                    fr.zero_data()
                    ret = None
                else:
                    fr.add_metadata({"tag%d" % op.get("n", 0): op.get("n", 0)})
                    ret = None
                ctx.event(kind, ret, *frame_obs(fr))
            elif kind in ("f_copy", "f_pickle"):
                if op["id"] not in frames:
                    continue
                src = frames[op["id"]]
                if kind == "f_copy":
                    c = src.copy()
                else:
                    p = seams.path("p%d_%d.pickle" % (op["id"], op["new"]))
                    src.save_pickle(p)
                    c = stg.Frame.load_pickle(p)
                bad = frame_equal(src, c)
                if bad:
                    ctx.violation("copy", "C12/%s/differs_from_original/%s" % (kind[2:], "+".join(bad)),
                                  "route %s: %s differ after %s" % (op.get("route"), bad, kind))
                    return
                if np.shares_memory(src.data, c.data) or src.metadata is c.metadata or src.rng is c.rng:
                    ctx.violation("copy", "C12/%s/shares_state_with_original" % kind[2:], "data, metadata or rng object shared")
                    return
                # the copy draws the same noise as the original would (same generator state), independently
                frames[op["new"]] = c
                rng_group[op["new"]] = ("own", op["new"])
                touched.update([op["id"], op["new"]])
                touch(op["new"])
                ctx.checks += 1
                ctx.hit("copy_of_" + str(op.get("route")))
                ctx.event(kind, *frame_obs(c))
            elif kind in ("f_slice", "f_dedrift", "f_integrate"):
                if op["id"] not in frames:
                    continue
                src = frames[op["id"]]
                if kind == "f_slice":
                    n = src.fchans
                    if n < 6:
                        continue
                    l = min(int(op["a"] * n), n - 3)
                    r = max(min(int(np.ceil(op["b"] * n)), n), l + 3)
                    c = stg.get_slice(src, l, r)
                elif kind == "f_dedrift":
                    rate = op["px"] * src.df / src.dt
                    if int(np.round(abs(rate) * src.tchans * src.dt / src.df)) >= src.fchans - 3:
                        continue
                    c = stg.dedrift(src, rate)
                else:
                    c = stg.integrate(src, axis=op["axis"], mode=op["mode"], as_frame=True)
                frames[op["new"]] = c
                rng_group[op["new"]] = rng_group.get(op["id"])
                touched.update([op["id"], op["new"]])
                touch(op["new"])
                ctx.event(kind, *frame_obs(c))
            elif kind == "f_save":
                if op["id"] not in frames:
                    continue
                fr = frames[op["id"]]
                if fr.tchans < 3 or fr.fchans < 3:
                    continue
                ext = "fil" if op["fmt"] == "fil" else "h5"
                p = seams.path("s%d_%d.%s" % (op["id"], op["seed"] % 100000, ext))
                (fr.save_fil if ext == "fil" else fr.save_hdf5)(p)
                touched.add(op["id"])
                obs = file_obs(p)
                if op.get("load_as") is not None:
                    lf = stg.Frame(waterfall=p, seed=op["seed"])
                    frames[op["load_as"]] = lf
                    rng_group[op["load_as"]] = ("own", op["load_as"])
                    touched.add(op["load_as"])
                    touch(op["load_as"])
                    obs += frame_obs(lf)
                ctx.event(kind, *obs)
            elif kind == "f_differ":
                # frames given different seeds draw different noise
                g = op["geom"]
                a = stg.Frame(fchans=g["fchans"], tchans=max(g["tchans"], 2), df=1.0, dt=1.0, fch1=g["fch1"], t_start=0.0, seed=op["seed_a"])
                b = stg.Frame(fchans=g["fchans"], tchans=max(g["tchans"], 2), df=1.0, dt=1.0, fch1=g["fch1"], t_start=0.0, seed=op["seed_b"])
                na = a.add_noise(10, 1, noise_type="gaussian")
                nb = b.add_noise(10, 1, noise_type="gaussian")
                ctx.check(not np.array_equal(na, nb), "seeds", "C12/seeds/different_frame_seeds_same_noise", "")
                ctx.event(kind, na, nb)
            # ---- voltage side -------------------------------------------------------
            elif kind == "r_build":
                ant = W.build_antenna(op["ant"])
                ants[op["id"]] = ant
                logs[op["id"]] = W.RequestLog(ant, ctx)
                backends[op["id"]] = W.build_backend(ant, op["el"], op["be"])
                ctx.event(kind)
            elif kind == "s_get":
                if op["id"] not in ants:
                    continue
                v = np.asarray(ants[op["id"]].get_samples(op["n"]))
                if op.get("check_differ") and v.shape[-1] >= 64:
                    # polarisations / antennas given different seeds draw different noise
                    flat = v.reshape(-1, v.shape[-1])
                    aspec = op["ant_spec"]
                    has_noise = [bool(s["noise"]) for strs in aspec["streams"] for s in strs]
                    for i in range(flat.shape[0]):
                        for k in range(i + 1, flat.shape[0]):
                            if has_noise[i] and has_noise[k] and aspec["kind"] == "single":
                                if not ctx.check(not np.array_equal(flat[i][:64], flat[k][:64]), "seeds",
                                                 "C12/seeds/streams_share_noise", "streams %d and %d return identical noise" % (i, k)):
                                    return
                ctx.event(kind, v)
            elif kind == "r_record":
                if op["id"] not in backends:
                    continue
                be = backends[op["id"]]
                stem = seams.path(op["stem"])
                h = op["header"]
                use_default = h["kind"] == "default"
                header = None
                if h["kind"] == "user":
                    header = dict(h["cards"])
                elif h["kind"] == "shared":
                    header = user_dicts.setdefault(h["name"], dict(h["cards"]))
                before = copy.deepcopy(header) if header is not None else None
                rec = {"num_blocks": op["num_blocks"], "digitize": op.get("digitize", True), "template": op.get("template", False),
                       "fault": op.get("fault"), "_log": logs[op["id"]]}
                status, exc = W.do_record(ctx, be, stem, rec, header=header, use_default_header=use_default)
                obs = []
                if status == "ok":
                    for p in W.list_files(stem):
                        with open(p, "rb") as f:
                            obs.append(f.read())
                elif status == "error":
                    raise exc
                rec_marks.setdefault(op["id"], []).append(logs[op["id"]].mark())
                ctx.event(kind + ("#" + op["tag"] if op.get("tag") else ""), status, obs)
                ctx.hit("record_%s_header" % h["kind"])
                if op.get("fault") and status == "fault":
                    ctx.hit("aborted_recording_in_history")
            elif kind == "r_set_subblocks":
                if op["id"] in backends:
                    backends[op["id"]].num_subblocks = op["n"]
                ctx.event(kind, op["n"])
            elif kind == "r_replay_requests":
                # advance a same-seed antenna exactly as an earlier recording on another antenna did
                src, dst = logs[op["src"]], ants[op["dst"]]
                upto = rec_marks[op["src"]][op["upto_record"] - 1]
                dst.reset_start()
                for r in src.requests[:upto]:
                    dst.get_samples(r.shape[-1])
                ctx.event(kind, len(src.requests))
            elif kind == "pfb_estimate":
                import setigen.voltage as sv_
                fb_ = sv_.PolyphaseFilterbank(num_taps=op["T"], num_branches=op["B"])
                ctx.event(kind, np.asarray(fb_.estimate_channelized_stds(factor=op["factor"], seed=op["seed"])))
                if op["factor"] * op["B"] > 2 ** 24:
                    ctx.hit("seeded_estimate_over_more_than_2**24_samples")
            elif kind == "r_estimate":
                if op["id"] not in backends:
                    continue
                be = backends[op["id"]]
                out = []
                for a, row in enumerate(be.filterbank):
                    for p, fb in enumerate(row):
                        out.append(np.asarray(fb.estimate_channelized_stds(factor=op["factor"], seed=op["seed"] + 17 * a + p)))
                ctx.event(kind, out)
            elif kind == "r_from_data":
                ant = W.build_antenna(op["ant"])
                ants[op["id"]] = ant
                logs[op["id"]] = W.RequestLog(ant, ctx)
                dig, fb, _ = W.build_elements(op["el"])
                if op.get("template_estimate"):
                    # the channelised-noise estimate is seeded on the template filterbank handed to from_data
                    te = op["template_estimate"]
                    fb.estimate_channelized_stds(factor=te["factor"], seed=te["seed"])
                    ctx.hit("estimate_seeded_on_template")
                seams.listing = op.get("listing", "sorted")
                try:
                    be = sv.RawVoltageBackend.from_data(seams.path(op["in_stem"]), ant, digitizer=dig, filterbank=fb,
                                                        start_chan=op["be"]["start_chan"], num_subblocks=op["num_subblocks"])
                finally:
                    seams.listing = "sorted"
                backends[op["id"]] = be
                ctx.event(kind, be.input_num_blocks, be.blocks_per_file, be.header_size)
            elif kind == "f_consolidate":
                ids = []
                for i in op["ids"]:
                    if i in frames and i not in ids:
                        ids.append(i)
                if not ids or not _compatible([frames[i] for i in ids]):
                    continue
                c = stg.Cadence([frames[i] for i in ids]).consolidate()
                # consolidate() takes no seed; the user seeds the new frame's generator
                c.rng = _REAL_DEFAULT_RNG(op["seed"])
                frames[op["new"]] = c
                rng_group[op["new"]] = ("own", op["new"])
                touched.update(ids + [op["new"]])
                touch(op["new"])
                ctx.hit("frame_from_consolidated_cadence")
                ctx.event(kind, *frame_obs(c))
            elif kind == "cad_inject":
                ids = [i for i in op["ids"] if i in frames]
                if len(ids) < 1:
                    continue
                cad = stg.Cadence([frames[i] for i in ids]) if _compatible([frames[i] for i in ids]) else None
                if cad is None:
                    continue
                fr0 = frames[ids[0]]
                g = {"fchans": fr0.fchans, "tchans": fr0.tchans, "df": fr0.df, "dt": fr0.dt}
                sig = op["sig"]
                path, tp, fp, bpp = F.signal_components(sig, g, fr0.tchans, fr0.fmin, fs_len=fr0.fchans)
                if not callable(path) and not isinstance(path, float) or isinstance(tp, (list, np.ndarray)) or isinstance(bpp, np.ndarray):
                    continue
                cad.add_signal(path, tp, fp, bpp)
                touched.update(ids)
                ctx.event(kind, *[np.asarray(frames[i].data) for i in ids])
            else:
                raise ValueError("unknown op " + kind)
        except Exception as e:
            sig = "C12/program/%s/raises:%s@%s" % (kind, type(e).__name__, W.innermost_setigen_frame(e))
            ctx.violation("program", sig, repr(e))
            ctx.event("EXC", sig)
            return
        if kind.startswith("f_") or kind == "cad_inject":
            if not others_unchanged(kind, touched):
                return
            for t in touched:
                if t in frames:
                    touch(t)
        if ctx.violations:
            return
    ctx.nontrivial = True


def _compatible(frs):
    f0 = frs[0]
    return all(f.df == f0.df and f.dt == f0.dt and f.fchans == f0.fchans and f.fmin == f0.fmin for f in frs)
