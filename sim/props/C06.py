"""C06 — injection is additive, confined to its bounding range, preserves frame state.

FRAME world.  Quantified over histories ("any sequence of injections", frames
with arbitrary prior content incl. float32 data loaded from a file) and mostly a
statement about what must *not* change: a frame-state invariant evaluated around
every operation over *all* live frames.
"""
import copy
import math

import numpy as np

from ..core import InjectedCallbackError
from ..worlds import frame as F

ID = "C06"
WORLD = "frame"
LEVEL = "exploration"
EST_RUN_S = 0.08
RULE = ("scenario = 1-3 frames by different construction routes (sizes, shape, data, from_data, units, float32 data loaded "
        "from a .fil written by RefSigproc), prior content (noise, earlier signals), and a seeded sequence of injections "
        "(all shipped path/profile families, callable/array/scalar forms, all integrate/smearing flags) with bounding "
        "ranges inside, clipped low/high, reversed, empty, wholly below or above the band; oracle = data delta equals the "
        "returned array bit for bit, nothing outside the clipped range changes, bounded == unbounded restricted, no other "
        "attribute and no other frame changes, signals superpose in both orders; non-trivial = >= 2 injections; distinct = "
        "abstract fingerprint")
COMPONENTS = {"real": ["setigen.frame.Frame.add_signal", "setigen.funcs", "blimpy Waterfall (loaded float32 frames)"],
              "stub": ["RefSigproc writer for the input .fil", "SimClock", "entropy seam"]}
ASSUMPTIONS = ["uses the returned signal (no independent evaluator; that would be C01)",
               "box profiles are excluded from the bounded-vs-unbounded comparison with integrate_f_profile (knife-edge)",
               "no fault kind applies (no I/O, no clock inside add_signal); a raising callback is C16's subject"]
PROBES = ["frame_in_two_slots_of_a_cadence", "unseeded_frame_and_unseeded_signal_function", "bounding_range_inside", "bounding_range_clipped_low", "bounding_range_clipped_high", "bounding_range_outside_below",
          "bounding_range_outside_above", "bounding_range_empty_or_reversed", "float32_frame_injection", "prior_noise",
          "superposition_checked", "other_frames_alive", "integrate_f_profile_bounded", "estimates_not_read_before_injection", "callback_error_in_injection", "frame_took_part_in_cadence_injection"]

BOUND_KINDS = ["none", "none", "inside", "inside", "clip_low", "clip_high", "below", "above", "empty", "reversed", "whole"]


def gen_bounding(rng):
    b = {"kind": rng.choice(BOUND_KINDS), "a": rng.choice([0.1, 0.25, 0.4]), "b": rng.choice([0.55, 0.7, 0.9])}
    if b["kind"] != "none" and rng.random() < 0.25:
        b["unit"] = rng.choice(["MHz", "GHz", "kHz", "Hz"])
    return b


def generate(rng, tier):
    nfr = rng.choice([1, 1, 2, 3])
    geom = F.gen_geom(rng)
    frames = []
    for i in range(nfr):
        g = geom if rng.random() < 0.7 else F.gen_geom(rng)
        spec = F.gen_frame_spec(rng, g, routes=["sizes", "shape", "data", "from_data", "units", "load_fil", "load_fil"])
        spec["noise"] = rng.choice([None, None, "chi2", "gaussian"])
        if not spec["noise"] and rng.random() < 0.25:
            # the omitted default: no seed.  (The entropy such a frame draws is the simulator's, so the run replays.)
            spec["seed"] = None
        frames.append(spec)
    ops = []
    # SCALE: a survey-sized frame (more than 2**20 pixels, sizes not powers of two) with a wide bounding range and a
    # signal at its upper edge (block-wise evaluation that only engages beyond some size, and where its last block ends)
    huge = rng.random() < (0.035 if tier == "quick" else 0.08)
    if huge:
        del frames[1:]
        nfr = 1
        frames[0]["geom"] = dict(frames[0]["geom"])
        frames[0]["geom"]["tchans"], frames[0]["geom"]["fchans"] = rng.choice([(16, 131072), (20, 100000), (12, 200000), (33, 40000),
                                                                               (16, 524288), (16, 400000)])
        frames[0]["route"] = rng.choice(["sizes", "data"])
    for _ in range(rng.randint(1, 6) if not huge else rng.randint(1, 2)):
        fi = rng.randrange(nfr)
        g = frames[fi]["geom"]
        op = {"op": "inject", "fr": fi, "sig": F.gen_signal(rng, g, stateful=rng.random() < 0.4), "bounding": gen_bounding(rng),
              "observe_before": rng.random() < 0.5}
        if huge:
            op["sig"]["opts"] = {}
            op["sig"]["f"]["kind"] = rng.choice(["sinc2", "lorentzian", "gaussian"])
            if op["sig"]["path"]["kind"] == "rfi":
                op["sig"]["path"]["kind"] = "constant"
            if rng.random() < 0.5:
                # a wide range with the signal at its upper edge
                op["bounding"] = {"kind": "inside", "a": rng.choice([0.01, 0.1]), "b": rng.choice([0.7, 0.9, 0.95])}
                op["sig"]["path"]["idx"] = op["bounding"]["b"]
            else:
                # a narrow range around a (possibly smeared, drifting) signal anywhere in the band: the bounded injection
                # evaluates a small grid, the unbounded one it is compared with the whole frame
                c = rng.choice([0.3, 0.76, 0.9])
                op["bounding"] = {"kind": "inside", "a": c - 0.02, "b": c + 0.02}
                op["sig"]["path"]["idx"] = c
                op["sig"]["path"]["drift"] = rng.choice([1.0, -1.0, 3.0]) * g["df"] / g["dt"]
                if op["sig"]["path"]["kind"] in ("scalar", "array"):
                    op["sig"]["path"]["kind"] = "constant"
                if rng.random() < 0.6:
                    op["sig"]["opts"] = {"doppler_smearing": True, "smearing_subsamples": rng.choice([2, 5])}
        if rng.random() < 0.35:
            # randomised signal functions created without a seed, too
            for part in ("path", "t"):
                if op["sig"][part].get("kind") in ("rfi", "pulse"):
                    op["sig"][part]["seed"] = None
        if rng.random() < 0.12:
            # the injection dies part-way: a user callback raises on its k-th evaluation
            op["fault"] = {"which": rng.choice(["f_profile", "f_profile", "path", "t_profile"]), "at": rng.randint(1, 4)}
            if rng.random() < 0.6:
                op["sig"]["opts"] = dict(op["sig"]["opts"], doppler_smearing=True, smearing_subsamples=rng.choice([2, 5]))
                if op["sig"]["path"]["kind"] == "array":
                    op["sig"]["path"]["kind"] = "constant"
        elif rng.random() < 0.08:
            # the frame is, for this one injection, a member of a cadence (at a time offset from the cadence's start)
            op["via_cadence"] = {"offset": rng.choice([200.0, 16.0, 3600.0]), "pos": rng.choice(["second", "second", "first", "twice"])}
            if rng.random() < 0.6:
                op["sig"]["opts"] = dict(op["sig"]["opts"], doppler_smearing=True, smearing_subsamples=rng.choice([2, 5]))
                if op["sig"]["path"]["kind"] == "array":
                    op["sig"]["path"]["kind"] = "constant"
        elif ops and ops[-1].get("fault") and rng.random() < 0.7:
            # ... and the next injection has the same shape and options (what a retry looks like)
            op["sig"]["opts"] = dict(ops[-1]["sig"]["opts"])
            op["bounding"] = dict(ops[-1]["bounding"])
            op["fr"] = ops[-1]["fr"]
            if op["sig"]["path"]["kind"] == "array" and op["sig"]["opts"].get("doppler_smearing"):
                op["sig"]["path"]["kind"] = "constant"
        # hygiene (as in gen_signal): a discontinuous box profile is not combined with sub-sample integration or smearing -
        # re-imposed here because the branches above replace the options after the profile kind was drawn
        o_ = op["sig"]["opts"]
        if op["sig"]["f"]["kind"] == "box" and (o_.get("integrate_f_profile") or o_.get("integrate_path") or o_.get("doppler_smearing")):
            op["sig"]["f"]["kind"] = "gaussian"
        ops.append(op)
    return {"seams": {"clock_origin": 1.7e9 + rng.randrange(1000), "clock_jitter_seed": rng.randrange(1 << 20),
                      "entropy_salt": rng.randrange(1 << 20), "scratch": "c06"},
            "frames": frames, "ops": ops}


def simplify(sc):
    if len(sc["frames"]) > 1:
        for drop in range(len(sc["frames"])):
            if all(op["fr"] != drop for op in sc["ops"]):
                c = copy.deepcopy(sc)
                del c["frames"][drop]
                for op in c["ops"]:
                    if op["fr"] > drop:
                        op["fr"] -= 1
                yield c
    for i, f in enumerate(sc["frames"]):
        if f["noise"]:
            c = copy.deepcopy(sc)
            c["frames"][i]["noise"] = None
            yield c
        if f["route"] != "sizes":
            c = copy.deepcopy(sc)
            c["frames"][i]["route"] = "sizes"
            yield c
        for key, v in (("fchans", 8), ("tchans", 2)):
            if f["geom"][key] > v:
                c = copy.deepcopy(sc)
                c["frames"][i]["geom"][key] = v
                yield c
    for j, op in enumerate(sc["ops"]):
        s = op["sig"]
        if s["opts"]:
            c = copy.deepcopy(sc)
            c["ops"][j]["sig"]["opts"] = {}
            yield c
            for k in ("integrate_path", "integrate_t_profile", "integrate_f_profile", "doppler_smearing"):
                if s["opts"].get(k):
                    c = copy.deepcopy(sc)
                    c["ops"][j]["sig"]["opts"][k] = False
                    yield c
        for key, v in (("path", "constant"), ("t", "constant"), ("f", "gaussian"), ("bp", "none")):
            if s[key]["kind"] != v:
                c = copy.deepcopy(sc)
                c["ops"][j]["sig"][key]["kind"] = v
                yield c
        if op["bounding"]["kind"] != "none":
            c = copy.deepcopy(sc)
            c["ops"][j]["bounding"]["kind"] = "none"
            yield c


def bounding_of(b, fr):
    """-> (range tuple or None, expected [lo, hi) index range, class)"""
    n = fr.fchans
    span = n * fr.df
    k = b["kind"]
    if k == "none":
        return None, (0, n), "none"
    if k == "inside":
        r = (fr.fmin + b["a"] * span, fr.fmin + b["b"] * span)
    elif k == "clip_low":
        r = (fr.fmin - 0.3 * span, fr.fmin + b["a"] * span)
    elif k == "clip_high":
        r = (fr.fmin + b["b"] * span, fr.fmin + 1.4 * span)
    elif k == "below":
        r = (fr.fmin - 0.9 * span, fr.fmin - 0.2 * span)
    elif k == "above":
        r = (fr.fmin + 1.2 * span, fr.fmin + 1.9 * span)
    elif k == "empty":
        r = (fr.fmin + b["a"] * span, fr.fmin + b["a"] * span)
    elif k == "reversed":
        r = (fr.fmin + b["b"] * span, fr.fmin + b["a"] * span)
    else:
        r = (fr.fmin - 0.5 * span, fr.fmin + 1.5 * span)
    if b.get("unit"):
        # the bounds as astropy quantities in the user's unit; the reference works from astropy's own conversion of
        # exactly those objects back to Hz
        from astropy import units as u
        rq = tuple((x * u.Hz).to(u.Unit(b["unit"])) for x in r)
        r = tuple(float(q.to(u.Hz).value) for q in rq)
    else:
        rq = r
    # the statement: index range of the requested frequencies, clipped to the band
    i0 = int(np.round((r[0] - fr.fmin) / fr.df))
    i1 = int(np.round((r[1] - fr.fmin) / fr.df))
    lo = min(max(i0, 0), n)
    hi = min(max(i1, lo), n)
    return rq, (lo, hi), k


def execute(sc, ctx):
    frames = []
    infos = []
    twins = []        # same construction, same prior noise, never injected: what the estimates must stay equal to

    def make(spec):
        fr, info = F.build_frame(spec, ctx)
        if spec["noise"] == "chi2" and fr.chi2_df > 0:
            fr.add_noise(x_mean=10)
        elif spec["noise"]:
            fr.add_noise(x_mean=10, x_std=1, noise_type="gaussian")
        return fr, info
    for spec in sc["frames"]:
        fr, info = make(spec)
        if spec["noise"]:
            ctx.hit("prior_noise")
        twins.append(make(spec)[0])
        frames.append(fr)
        infos.append(info)
        if fr.data.dtype == np.float32:
            ctx.hit("float32_frame_injection")
    if len(frames) > 1:
        ctx.hit("other_frames_alive")
    if any(sp["seed"] is None for sp in sc["frames"]) and any(
            op["sig"][part].get("kind") in ("rfi", "pulse") and op["sig"][part].get("seed") is None
            for op in sc["ops"] for part in ("path", "t")):
        ctx.hit("unseeded_frame_and_unseeded_signal_function")
    ninj = 0
    per_frame = {i: [] for i in range(len(frames))}       # (op index, returned signal)
    base = [np.array(fr.data, copy=True) for fr in frames]
    bcls = set()
    for j, op in enumerate(sc["ops"]):
        ctx.op("inject")
        i = op["fr"] % len(frames)
        fr = frames[i]
        g = sc["frames"][i]["geom"]
        sig = op["sig"]
        r, (lo, hi), bk = bounding_of(op["bounding"], fr)
        bcls.add(bk)
        probe = {"inside": "bounding_range_inside", "clip_low": "bounding_range_clipped_low", "clip_high": "bounding_range_clipped_high",
                 "below": "bounding_range_outside_below", "above": "bounding_range_outside_above",
                 "empty": "bounding_range_empty_or_reversed", "reversed": "bounding_range_empty_or_reversed"}.get(bk)
        if probe:
            ctx.hit(probe)
        kw = dict(sig["opts"])
        if r is not None:
            kw["bounding_f_range"] = r
        nfs = (hi - lo)
        path, tp, fp, bpp = F.signal_components(sig, g, fr.tchans, fr.fmin, fs_len=nfs * (kw.get("f_subsamples", 10) if kw.get("integrate_f_profile") else 1))
        # whether the noise estimates are read before the injection is part of the schedule: a snapshot taken
        # before every step would compute (and cache) them at a moment the user's program may never have
        observe_before = op.get("observe_before", True)
        if not observe_before:
            ctx.hit("estimates_not_read_before_injection")
        before = [F.state_fields(f, with_noise=observe_before or k != op["fr"] % len(frames)) for k, f in enumerate(frames)]
        data_before = [np.array(f.data, copy=True) for f in frames]
        if op.get("via_cadence"):
            # the frame takes part in a cadence injection (evaluated at cadence-relative times: what lands in the frame is
            # C16's subject).  Here: afterwards the frame's own axes and state are what they were, other frames are
            # untouched, and later direct injections are judged like any other
            import setigen as stg
            vc = op["via_cadence"]
            lead = stg.Frame(fchans=fr.fchans, tchans=fr.tchans, df=fr.df, dt=fr.dt, fch1=fr.fch1, ascending=fr.ascending,
                             t_start=fr.t_start - vc["offset"], seed=1)
            if vc["pos"] == "twice":
                # a synthetic ABAB cadence: the same frame object occupies two slots
                members = [lead, fr, lead, fr]
                ctx.hit("frame_in_two_slots_of_a_cadence")
            else:
                members = [lead, fr] if vc["pos"] == "second" else [fr, lead]
            try:
                stg.Cadence(members).add_signal(path, tp, fp, bpp, **kw)
            except Exception as e:
                ctx.violation("inject", "C06/cadence_inject/raises:%s" % type(e).__name__, repr(e))
                return
            ctx.event("cadence_inject", i, fr.data)
            ctx.hit("frame_took_part_in_cadence_injection")
            for k, f in enumerate(frames):
                after = F.state_fields(f, with_noise="noise_mean" in before[k])
                d = F.diff_fields(before[k], after)
                if not ctx.check(not d, "state", "C06/state/changed_by_cadence_injection:%s" % ",".join(d),
                                 lambda: "fields %s of frame %d changed" % (d, k)):
                    return
                if k != i and not ctx.check(np.array_equal(f.data, data_before[k]), "state", "C06/state/other_frame_data_changed",
                                            "a cadence injection changed a frame that is not a member"):
                    return
            base[i] = np.array(fr.data, copy=True)
            per_frame[i] = []
            continue
        fpath, ftp, ffp = path, tp, fp
        if op.get("fault"):
            box = {"n": 0}

            def failing(fn, at=op["fault"]["at"]):
                def wrapped(*a):
                    box["n"] += 1
                    if box["n"] == at:
                        raise InjectedCallbackError("callback failed on evaluation %d" % at)
                    return fn(*a)
                return wrapped
            w = op["fault"]["which"]
            if w == "path" and callable(path):
                fpath = failing(path)
            elif w == "t_profile" and callable(tp):
                ftp = failing(tp)
            else:
                ffp = failing(fp)
        arg_snap = [(nm, a, copy.deepcopy(a)) for nm, a in (("path", fpath), ("t_profile", ftp), ("bp_profile", bpp))
                    if isinstance(a, (np.ndarray, list))]
        try:
            ret = fr.add_signal(fpath, ftp, ffp, bpp, **kw)
        except InjectedCallbackError:
            ctx.event("inject_fault", i)
            ctx.fired("callback_error_in_injection")
            # a failed injection adds nothing, to any frame
            for k, f in enumerate(frames):
                after = F.state_fields(f, with_noise="noise_mean" in before[k])
                d = F.diff_fields(before[k], after)
                if not ctx.check(not d and np.array_equal(f.data, data_before[k]), "fault",
                                 "C06/fault/frame_changed_by_failed_injection", lambda: "changed: %s" % (d or ["data"])):
                    return
            continue
        except Exception as e:
            ctx.violation("inject", "C06/inject/raises:%s/bounding=%s%s" % (type(e).__name__, bk,
                                                                          "+integrate_f" if kw.get("integrate_f_profile") else ""),
                          "range %r on band [%r, %r): %r" % (r, fr.fmin, fr.fmin + fr.fchans * fr.df, e))
            return
        # the arrays and lists handed in are the caller's: unchanged; what comes back is not a window onto the frame
        for nm, a, snap in arg_snap:
            same = np.array_equal(np.asarray(a), np.asarray(snap)) and type(a) is type(snap)
            if not ctx.check(same, "args", "C06/argument_modified/" + nm, "the caller's %s array was changed by the injection" % nm):
                return
        if not ctx.check(not np.shares_memory(ret, fr.data), "alias", "C06/returned_signal_aliases_frame_data", ""):
            return
        ret = np.asarray(ret)
        ctx.event("inject", i, ret)
        ninj += 1
        # (1) delta == returned array, bit for bit (in the frame's dtype)
        want = (data_before[i].astype(np.float64) + ret).astype(fr.data.dtype)
        if not ctx.check(ret.shape == tuple(fr.shape) and np.array_equal(fr.data, want), "additive", "C06/additive/%s/bounding=%s" % (
                str(fr.data.dtype), bk), lambda: "data_after != data_before + returned signal; first diff %s" % _fd(fr.data, want)):
            return
        # (2) confinement
        out_mask = np.ones(fr.fchans, dtype=bool)
        out_mask[lo:hi] = False
        if not ctx.check(not np.any(ret[:, out_mask]) and np.array_equal(fr.data[:, out_mask], data_before[i][:, out_mask]),
                         "confined", "C06/confined/bounding=%s/writes_outside_range" % bk,
                         lambda: "range %r -> columns [%d, %d) of %d; columns written outside: %s" % (
                             r, lo, hi, fr.fchans, np.flatnonzero(np.any(ret != 0, axis=0) & out_mask)[:8])):
            return
        # (2b) the same signal computed separately on an empty twin frame is what this injection returned
        stateful_sig = sig["path"]["kind"] == "rfi" or sig["t"]["kind"] == "pulse"
        if not stateful_sig:
            tw0 = _pristine(fr)
            p3, t3, f3, b3 = F.signal_components(sig, g, fr.tchans, fr.fmin,
                                                 fs_len=nfs * (kw.get("f_subsamples", 10) if kw.get("integrate_f_profile") else 1))
            sep = np.asarray(tw0.add_signal(p3, t3, f3, b3, **kw))
            sc_ = max(float(np.max(np.abs(sep))), 1e-300)
            if not ctx.check(sep.shape == ret.shape and np.all(np.abs(sep - ret) <= 1e-12 * sc_), "separate",
                             "C06/superposition/returned_differs_from_separately_computed/%s" % (
                                 "smearing" if kw.get("doppler_smearing") else "plain"),
                             lambda: "max diff %.4g of scale %.4g" % (float(np.max(np.abs(sep - ret))), sc_)):
                return
        # (3) bounded == unbounded restricted (computed on a pristine twin)
        if r is not None and hi > lo:
            twin = _pristine(fr)
            p2, t2, f2, b2 = F.signal_components(sig, g, fr.tchans, fr.fmin,
                                                 fs_len=fr.fchans * (kw.get("f_subsamples", 10) if kw.get("integrate_f_profile") else 1))
            kw2 = dict(kw)
            kw2.pop("bounding_f_range")
            stateful = sig["path"]["kind"] == "rfi" or sig["t"]["kind"] == "pulse"
            arr_bp = sig["bp"]["kind"] == "array"
            if not stateful and not arr_bp:
                full = np.asarray(twin.add_signal(p2, t2, f2, b2, **kw2))
                scale = max(float(np.max(np.abs(full))), 1e-300)
                # the sub-sample grids start from different origins (fs[lo] vs fs[0]) and so differ by a few
                # ulp of the sky frequency; a smooth profile of width w changes by <~ 4 df/w of its scale
                if kw.get("integrate_f_profile"):
                    tol = scale * (1e-12 + 8 * 16 * math.ulp(float(fr.fmax)) / sig["f"]["width"])
                else:
                    tol = 1e-12 * scale
                if kw.get("integrate_f_profile"):
                    ctx.hit("integrate_f_profile_bounded")
                ctx.check(np.all(np.abs(full[:, lo:hi] - ret[:, lo:hi]) <= tol), "restricted",
                          "C06/restricted/bounded_differs_from_unbounded/%s" % ("integrate_f" if kw.get("integrate_f_profile") else "plain"),
                          lambda: "max diff %.3g of scale %.3g" % (float(np.max(np.abs(full[:, lo:hi] - ret[:, lo:hi]))), scale))
        # (4) nothing else changes, on any live frame
        for k, f in enumerate(frames):
            after = F.state_fields(f)
            if "noise_mean" not in before[k]:
                # not observed before: judge against the never-injected twin (estimates are only updated by noise routines)
                tw = twins[k]
                same = (f.noise_mean == tw.noise_mean or (f.noise_mean != f.noise_mean and tw.noise_mean != tw.noise_mean)) and \
                       (f.noise_std == tw.noise_std or (f.noise_std != f.noise_std and tw.noise_std != tw.noise_std))
                if not ctx.check(same, "state", "C06/state/injected_frame/noise_estimates_differ_from_untouched_twin",
                                 lambda: "after injection (%r, %r); identical frame never injected (%r, %r)" % (
                                     f.noise_mean, f.noise_std, tw.noise_mean, tw.noise_std)):
                    return
                after.pop("noise_mean")
                after.pop("noise_std")
            d = F.diff_fields(before[k], after)
            if not ctx.check(not d, "state", "C06/state/%s_frame/%s_changed" % ("injected" if k == i else "other", "+".join(d)),
                             lambda: "fields changed by add_signal: %s" % d):
                return
            if k != i:
                if not ctx.check(np.array_equal(f.data, data_before[k]), "state", "C06/state/other_frame/data_changed", ""):
                    return
        per_frame[i].append((j, ret))
        if ctx.violations and ctx.stop_on_violation:
            return
    # (5) superposition: separately computed signals (on empty twins) sum to what the sequence added
    for i, lst in per_frame.items():
        if len(lst) < 2:
            continue
        fr = frames[i]
        if fr.data.dtype != np.float64:
            continue
        g = sc["frames"][i]["geom"]
        stateful = any(sc["ops"][j]["sig"]["path"]["kind"] == "rfi" or sc["ops"][j]["sig"]["t"]["kind"] == "pulse" for j, _ in lst)
        if stateful:
            continue
        total = fr.data - base[i]
        for order in (lst, lst[::-1]):
            acc = np.zeros(fr.shape)
            for j, ret in order:
                acc = acc + ret
            scale = max(float(np.max(np.abs(base[i]))), float(np.max(np.abs(acc))), 1e-300)
            ctx.check(np.all(np.abs(total - acc) <= 4 * len(lst) * np.finfo(float).eps * scale), "superpose",
                      "C06/superposition", lambda: "sum of separately returned signals differs from the accumulated change")
        ctx.hit("superposition_checked")
    ctx.nontrivial = ninj >= 2
    ctx.sim_time += sum(f.tchans * f.dt for f in frames)
    ctx.fingerprint = [len(frames), sorted({s["route"] for s in sc["frames"]}), sorted(bcls),
                       sorted({op["sig"]["path"]["kind"] for op in sc["ops"]}), sorted({op["sig"]["f"]["kind"] for op in sc["ops"]}),
                       sorted({k for op in sc["ops"] for k, v in op["sig"]["opts"].items() if v is True}),
                       sorted({str(f.data.dtype) for f in frames})]


def _pristine(fr):
    import setigen as stg
    return stg.Frame(fchans=fr.fchans, tchans=fr.tchans, df=fr.df, dt=fr.dt, fch1=fr.fch1, ascending=fr.ascending,
                     t_start=fr.t_start, seed=0)


def _fd(a, b):
    a, b = np.asarray(a), np.asarray(b)
    if a.shape != b.shape:
        return "shape %s vs %s" % (a.shape, b.shape)
    d = np.argwhere(a != b)
    if d.size == 0:
        return "none"
    i = tuple(int(x) for x in d[0])
    return "%s: %r vs %r" % (i, a[i], b[i])
