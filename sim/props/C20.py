"""C20 — block, length and sample accounting is exact and consistent across helpers.

RAW world.  The first half of the statement is a conservation law over a
recorded history: what the backend drew from its antenna (observed through the
get_samples seam: the request log) against what it reports and writes.  The
helper functions are pure; they are reached only as cross-checks on the
configurations the scheduler happens to draw (scope stated in DESIGN.md).
"""
import copy
import math
from fractions import Fraction

import numpy as np

from ..models import guppi
from ..worlds import raw as W
from . import C02

ID = "C20"
WORLD = "raw"
LEVEL = "exploration"
EST_RUN_S = 0.05
RULE = ("scenario = seeded antenna/elements/backend and 1-3 recordings requested by block count or by duration (exact "
        "multiples of the block time, k+1/2, just below/above a boundary, arbitrary), some aborted by an injected fault "
        "and retried; oracle = conservation over the antenna request log (sum of requests = n*spb*B + T*B, clock "
        "advance), exactness of samples_per_block/time_per_block/obs_length/total_obs_num_samples/SCANLEN/PKTSTOP, "
        "duration rule x-1 < n <= x, and agreement of get_block_size/get_total_obs_num_samples/get_unit_drift_rate/"
        "params_from_backend; non-trivial = a completed recording; distinct = abstract fingerprint")
COMPONENTS = C02.COMPONENTS
ASSUMPTIONS = ["only the total drawn from the antenna is judged, not how it is split over requests",
               "a duration within 1e-9 (relative) of a block boundary may resolve either way"]
PROBES = ["num_subblocks_reassigned_between_recordings", "backend_from_data", "from_data_request_exceeds_input", "from_data_whole_input", "duration_exact_multiple", "duration_mode", "duration_zero_blocks", "retry_after_fault", "array_source",
          "second_recording_same_backend", "non_dyadic_rate"]


def generate(rng, tier):
    ant = W.gen_antenna(rng)
    if rng.random() < 0.5:
        ant["fs"] = rng.choice([3e9, 2.4e9, 44100.0, 1e6, 187.5e6, 1234567.0, 1e9 / 3, 2.048e6, 6e9])
        ant["dyadic"] = False
    el = W.gen_elements(rng, tier)
    if rng.random() < 0.6:
        el["T"] = rng.choice([1, 2, 4])
        el["B"] = rng.choice([4, 8, 16])
    be = W.gen_backend(rng, ant, el)
    # SCALE: production-sized blocks - one sub-block of more than 2**22 real samples, the block not a whole multiple of
    # any round size (caps and chunking inside a block only engage there, and their remainder handling)
    r_ = rng.random()
    heavy = r_ < (0.01 if tier == "quick" else 0.05)
    medium = (not heavy) and r_ < (0.04 if tier == "quick" else 0.12)       # one sub-block of 1-2.5 million real samples
    if medium:
        heavy = True
    if heavy:
        for _ in range(8):
            if ant["n_ant"] * ant["pols"] <= 1:
                break
            ant = W.gen_antenna(rng)
        el["T"], el["B"] = 4, 64
        be = W.gen_backend(rng, ant, el)
        be["num_chans"], be["start_chan"] = rng.choice([1, 2, 3]), rng.choice([0, 5])
        be["W"] = rng.choice([24576, 24580, 30001, 40985]) if not medium else rng.choice([4100, 6000, 9001, 4096 + 32])
        be["spb"] = be["W"] * el["T"]
        be["block_size"] = be["spb"] * ant["n_ant"] * be["num_chans"] * (2 * ant["pols"] * el["bits"] // 8)
        be["num_subblocks"] = rng.choice([1, 1, 2])
    ops = []
    for _ in range(rng.choice([1, 1, 2, 3]) if not heavy else 1):
        op = {"op": "record", "digitize": rng.random() < 0.5, "template": False}
        if rng.random() < 0.45:
            op["num_blocks"] = rng.choice([1, 2, 3, 5, 6])
        else:
            k = rng.choice([0, 1, 1, 2, 3, 4, 5])
            op["dur"] = {"k": k, "mode": rng.choice(["exact", "exact", "half", "below", "above", "frac"]),
                         "frac": rng.random()}
        if heavy:
            op.pop("dur", None)
            op["num_blocks"] = rng.choice([1, 2])
        elif rng.random() < 0.12:
            op["fault"] = rng.choice([{"kind": "enospc", "at": rng.randint(1, 40)}, {"kind": "source", "at": rng.randint(1, 5)},
                                      {"kind": "interrupt", "at": rng.randint(1, 300)}])
        if ops and rng.random() < 0.3:
            op["set_subblocks"] = rng.randint(1, be["W"] + 2)
        ops.append(op)
    onto = None
    if rng.random() < 0.3 and not heavy:
        # a second backend built with from_data on the first recording: requests may exceed what the input holds,
        # in which case "only as much data as is in the input" is recorded and the accounting is about those blocks
        ops2 = []
        for _ in range(rng.choice([1, 1, 2])):
            o2 = {"op": "record", "digitize": rng.random() < 0.5, "template": False}
            r = rng.random()
            if r < 0.4:
                o2["num_blocks"] = rng.choice([1, 2, 3, 5, 6, 9])
            elif r < 0.8:
                o2["dur"] = {"k": rng.choice([0, 1, 2, 3, 5, 7]), "mode": rng.choice(["exact", "half", "below", "above", "frac"]),
                             "frac": rng.random()}
            else:
                o2["whole_input"] = True
            ops2.append(o2)
        onto = {"seed": rng.randrange(1 << 30), "num_subblocks": rng.randint(1, 4), "ops": ops2}
    helpers = {"tchans_per_block": rng.choice([1, 2, 4, 16]), "fftlength": rng.choice([1, 2, 4, 8, 256]),
               "int_factor": rng.choice([1, 2, 3, 51]), "obs_length": rng.choice([0.001, 0.37, 1.0, 5.0, 300.0])}
    return {"seams": {"clock_origin": 1.7e9 + rng.randrange(10 ** 6), "clock_jitter_seed": rng.randrange(1 << 20),
                      "entropy_salt": rng.randrange(1 << 20), "scratch": "c20"},
            "ant": ant, "el": el, "be": be, "ops": ops, "helpers": helpers, "onto": onto}


def simplify(sc):
    for c in C02.simplify(sc):
        yield c
    for j, op in enumerate(sc["ops"]):
        if "dur" in op and op["dur"]["k"] > 1:
            c = copy.deepcopy(sc)
            c["ops"][j]["dur"]["k"] -= 1
            yield c


def _close(a, b, ulps=2):
    a, b = float(a), float(b)
    return abs(a - b) <= ulps * math.ulp(max(abs(a), abs(b), 1e-300))


def duration_of(op, tpb_exact):
    d = op["dur"]
    k = d["k"]
    base = float(tpb_exact * k)
    if d["mode"] == "exact":
        return base
    if d["mode"] == "half":
        return float(tpb_exact * (k + Fraction(1, 2)))
    if d["mode"] == "below":
        return base * (1 - 1e-6) if k else 0.0
    if d["mode"] == "above":
        return base * (1 + 1e-6)
    return float(tpb_exact * (k + Fraction(d["frac"]).limit_denominator(1000)))


def execute(sc, ctx):
    import setigen as stg
    import setigen.voltage as sv
    ant, el, be = sc["ant"], sc["el"], sc["be"]
    if ant["kind"] == "array":
        ctx.hit("array_source")
    if not ant["dyadic"]:
        ctx.hit("non_dyadic_rate")
    fs = Fraction(ant["fs"])
    T, B = el["T"], el["B"]
    antenna = W.build_antenna(ant)
    log = W.RequestLog(antenna, ctx)
    backend = W.build_backend(antenna, el, be)
    bps = 2 * ant["pols"] * el["bits"] // 8
    spb = be["block_size"] // (ant["n_ant"] * be["num_chans"] * bps)
    tpb = Fraction(spb * B) / fs
    ctx.check(backend.samples_per_block == spb and isinstance(backend.samples_per_block, (int, np.integer)), "sizes",
              "C20/sizes/samples_per_block", lambda: "%r vs %d" % (backend.samples_per_block, spb))
    ctx.check(_close(backend.time_per_block, float(tpb)), "sizes", "C20/sizes/time_per_block",
              lambda: "%r vs %r" % (backend.time_per_block, float(tpb)))
    state = {"nrec": 0, "first_ok_stem": None, "first_ok_n": 0}

    def run_ops(ops, backend, antenna, log, prefix, clip):
      for j, op in enumerate(ops):
          if op.get("set_subblocks") and j > 0:
              backend.num_subblocks = W._icast(el)(op["set_subblocks"])
              ctx.hit("num_subblocks_reassigned_between_recordings")
          ctx.op("record" + ("+fault" if op.get("fault") else "") + ("/dur" if "dur" in op else "/n"))
          op2 = dict(op)
          want_n = None
          if "dur" in op:
              ctx.hit("duration_mode")
              obs = duration_of(op, tpb)
              op2["obs_length"] = obs
              x = Fraction(obs) / tpb
              if op["dur"]["mode"] == "exact":
                  ctx.hit("duration_exact_multiple")
          elif op.get("whole_input"):
              want_n = clip
              ctx.hit("from_data_whole_input")
          else:
              want_n = op["num_blocks"]
          if clip is not None and want_n is not None and want_n > clip:
              want_n = clip
              ctx.hit("from_data_request_exceeds_input")
          attempts = [op2] if not op.get("fault") else [op2, dict(op2, fault=None)]
          status = None
          for a_i, o in enumerate(attempts):
              o = dict(o)
              o["_log"] = log
              mark = log.mark()
              t_before = antenna.t_start
              stem = ctx.seams.path("%s%d_%d" % (prefix, j, a_i if j % 2 else 0))       # every other retry re-uses the stem
              status, exc = W.do_record(ctx, backend, stem, o, header={})
              if status == "fault":
                  ctx.event("aborted")
                  continue
              if a_i == 1:
                  ctx.hit("retry_after_fault")
              break
          if status != "ok":
              if status == "fault":
                  continue
              ctx.violation("record", "C20/record/raises:%s@%s" % (type(exc).__name__, W.innermost_setigen_frame(exc)), repr(exc))
              return False
          if state["nrec"] >= 1 and clip is None:
              ctx.hit("second_recording_same_backend")
          state["nrec"] += 1
          try:
              files, per_file, blocks = W.parse_recording(stem)
          except guppi.GuppiFormatError as e:
              ctx.violation("framing", "C20/framing/" + e.cls, str(e))
              return False
          n = len(blocks)
          ctx.event("record", n, backend.total_obs_num_samples)
          if clip is None and state["first_ok_stem"] is None:
              state["first_ok_stem"], state["first_ok_n"] = stem, n
          if want_n is not None:
              if not ctx.check(n == want_n, "blocks", "C20/blocks/count", lambda: "recorded %d, requested %d" % (n, want_n)):
                  return False
          elif clip is not None and x >= clip + 1:
              # the request exceeds the input: the whole input, and nothing more, is recorded
              ctx.hit("from_data_request_exceeds_input")
              if not ctx.check(n == clip, "blocks", "C20/blocks/from_data_clip", lambda: "recorded %d, input holds %d" % (n, clip)):
                  return False
          else:
              lo, hi = x - 1 - Fraction(1, 10 ** 9) * max(x, 1), x + Fraction(1, 10 ** 9) * max(x, 1)
              if clip is not None:
                  hi = min(hi, clip)
              if not ctx.check(lo < n <= hi, "blocks", "C20/blocks/duration_rule/%s" % (
                      "exceeds_request" if n > hi else "short_by_a_block_or_more"),
                      lambda: "requested %.17g s = %.12g blocks, recorded %d" % (obs, float(x), n)):
                  return False
              if n == 0:
                  ctx.hit("duration_zero_blocks")
          ctx.nontrivial = True
          # conservation over the request log
          reqs = log.since(mark)
          drawn = sum(r.shape[-1] for r in reqs)
          want = n * spb * B + (T * B if n > 0 else 0)
          if not ctx.check(drawn == want, "conservation", "C20/conservation/samples_drawn_%s" % ("more" if drawn > want else "fewer"),
                           lambda: "drew %d samples in %d requests, want %d*%d*%d + %d*%d = %d" % (
                               drawn, len(reqs), n, spb, B, T, B, want)):
              return False
          adv = Fraction(antenna.t_start) - Fraction(t_before)
          exact = Fraction(drawn) / fs
          tol = 0 if ant["dyadic"] else (2 * len(reqs) + 2) * math.ulp(max(abs(antenna.t_start), abs(t_before), float(exact), 1e-300))
          if not ctx.check(abs(adv - exact) <= tol, "conservation", "C20/conservation/clock_advance/%s" % (
                  "dyadic" if ant["dyadic"] else "float"),
                  lambda: "clock advanced %.17g, %d samples at %r Hz = %.17g" % (float(adv), drawn, ant["fs"], float(exact))):
              return False
          # reported integers and ratios
          ctx.check(backend.num_blocks == n, "report", "C20/report/num_blocks", lambda: "%r vs %d" % (backend.num_blocks, n))
          ctx.check(backend.total_obs_num_samples == n * spb * B, "report", "C20/report/total_obs_num_samples",
                    lambda: "reported %r, exact %d (n=%d spb=%d B=%d fs=%r)" % (backend.total_obs_num_samples, n * spb * B, n, spb, B, ant["fs"]))
          ctx.check(_close(backend.obs_length, float(n * tpb)), "report", "C20/report/obs_length",
                    lambda: "%r vs %r" % (backend.obs_length, float(n * tpb)))
          if blocks:
              h = blocks[0]["header"]
              ctx.check(_close(h.get("SCANLEN", float("nan")), float(n * tpb)), "report", "C20/report/SCANLEN",
                        lambda: "%r vs %r" % (h.get("SCANLEN"), float(n * tpb)))
              pk0 = h.get("PKTSTART")
              if clip is not None and isinstance(pk0, str) and pk0.strip().lstrip("-").isdigit():
                  pk0 = int(pk0)      # cards inherited from the input file are re-written as quoted strings (see C04)
              ctx.check(isinstance(h.get("PKTSTOP"), int) and isinstance(pk0, int)
                        and h["PKTSTOP"] - pk0 == n * spb, "report", "C20/report/PKTSTOP",
                        lambda: "PKTSTART %r PKTSTOP %r n*spb %d" % (h.get("PKTSTART"), h.get("PKTSTOP"), n * spb))
          # stand-alone helper for the same inputs
          kw = dict(num_antennas=ant["n_ant"], sample_rate=ant["fs"], block_size=be["block_size"], num_bits=el["bits"],
                    num_pols=ant["pols"], num_branches=B, num_chans=be["num_chans"])
          got = sv.get_total_obs_num_samples(num_blocks=n, length_mode="num_blocks", **kw)
          ctx.check(got == n * spb * B, "helpers", "C20/helpers/get_total_obs_num_samples/num_blocks",
                    lambda: "%r vs %d" % (got, n * spb * B))
          # "for the same inputs": the mode selects which length argument counts, also when both are supplied
          got2 = sv.get_total_obs_num_samples(obs_length=float(tpb) * (n + 7.5), num_blocks=n, length_mode="num_blocks", **kw)
          ctx.check(got2 == n * spb * B, "helpers", "C20/helpers/get_total_obs_num_samples/num_blocks_mode_with_both_lengths",
                    lambda: "%r vs %d" % (got2, n * spb * B))
          if "dur" in op and (clip is None or x < clip + 1 - Fraction(1, 10 ** 9) * max(x, 1)):
              got3 = sv.get_total_obs_num_samples(obs_length=obs, num_blocks=n + 3, length_mode="obs_length", **kw)
              got = sv.get_total_obs_num_samples(obs_length=obs, length_mode="obs_length", **kw)
              ctx.check(got3 == got, "helpers", "C20/helpers/get_total_obs_num_samples/obs_length_mode_with_both_lengths",
                        lambda: "%r with a stray num_blocks, %r without" % (got3, got))
              near = abs(x - round(x)) <= Fraction(1, 10 ** 9) * max(x, 1)
              ok = got == n * spb * B or (near and got in ((n - 1) * spb * B, (n + 1) * spb * B))
              ctx.check(ok, "helpers", "C20/helpers/get_total_obs_num_samples/obs_length",
                        lambda: "helper %r, backend recorded %d blocks = %d samples" % (got, n, n * spb * B))
              gnb = backend.get_num_blocks(obs)
              ctx.check(gnb == n, "helpers", "C20/helpers/get_num_blocks_differs_from_record", lambda: "%r vs %d" % (gnb, n))
          ctx.sim_time += drawn / ant["fs"]
          if ctx.violations and ctx.stop_on_violation:
              return False
      return True

    if not run_ops(sc["ops"], backend, antenna, log, "r", None):
        return
    onto = sc.get("onto")
    if onto and state["first_ok_stem"] and state["first_ok_n"] > 0:
        ctx.hit("backend_from_data")
        ant2 = dict(copy.deepcopy(ant), seed=onto["seed"])
        antenna2 = W.build_antenna(ant2)
        log2 = W.RequestLog(antenna2, ctx)
        dig, fb, _ = W.build_elements(el)
        backend2 = sv.RawVoltageBackend.from_data(state["first_ok_stem"], antenna2, digitizer=dig, filterbank=fb,
                                                  start_chan=be["start_chan"], num_subblocks=onto["num_subblocks"])
        for row in backend2.filterbank:
            for f in row:
                f.estimate_channelized_stds(factor=50, seed=onto["seed"] % 1000)
        if not run_ops(onto["ops"], backend2, antenna2, log2, "o", state["first_ok_n"]):
            return
    # helper cross-checks on this configuration
    hp = sc["helpers"]
    tc, fl, itf = hp["tchans_per_block"], hp["fftlength"], hp["int_factor"]
    bs = sv.get_block_size(num_antennas=ant["n_ant"], tchans_per_block=tc, num_bits=el["bits"], num_pols=ant["pols"],
                           num_branches=B, num_chans=be["num_chans"], fftlength=fl, int_factor=itf)
    ctx.check(bs == tc * fl * itf * ant["n_ant"] * be["num_chans"] * bps, "helpers", "C20/helpers/get_block_size",
              lambda: "%r" % (bs,))
    if (tc * fl * itf) % T == 0 and bs <= 1 << 22:
        b2 = W.build_backend(W.build_antenna(ant), el, dict(be, block_size=bs))
        ctx.check(b2.samples_per_block == tc * fl * itf, "helpers", "C20/helpers/get_block_size_vs_backend",
                  lambda: "backend spb %r for helper block size %r (want %d)" % (b2.samples_per_block, bs, tc * fl * itf))
    udr = sv.get_unit_drift_rate(backend, fl, itf)
    want = (fs / B / fl) / (Fraction(B) / fs * fl * itf)
    ctx.check(_close(abs(udr), float(want), ulps=8), "helpers", "C20/helpers/get_unit_drift_rate", lambda: "%r vs %r" % (udr, float(want)))
    pf = stg.params_from_backend(obs_length=hp["obs_length"], sample_rate=ant["fs"], num_branches=B, fftlength=fl, int_factor=itf)
    # what a helper returned stays what it was when the helper is asked about another configuration
    pf_snap = copy.deepcopy(pf)
    pf_other = stg.params_from_backend(obs_length=hp["obs_length"] * 2 + 1.0, sample_rate=ant["fs"], num_branches=B, fftlength=fl * 2,
                                       int_factor=itf + 1)
    ctx.check(pf == pf_snap and pf_other is not pf, "helpers", "C20/helpers/params_from_backend/result_changed_by_later_call",
              lambda: "held %r, was %r" % (pf, pf_snap))
    df = fs / B / fl
    dt = Fraction(itf) / df
    xt = Fraction(hp["obs_length"]) / dt
    okp = _close(pf["df"], float(df), 4) and _close(pf["dt"], float(dt), 4) and (
        xt - 1 - Fraction(1, 10 ** 9) * max(xt, 1) < pf["tchans"] <= xt + Fraction(1, 10 ** 9) * max(xt, 1))
    ctx.check(okp, "helpers", "C20/helpers/params_from_backend", lambda: "%r vs df %r dt %r tchans<=%r" % (pf, float(df), float(dt), float(xt)))
    ctx.fingerprint = [ant["kind"], ant["n_ant"], ant["pols"], el["bits"], ant["dyadic"], min(T, 4),
                       sorted({("dur:" + o["dur"]["mode"] + str(min(o["dur"]["k"], 2))) if "dur" in o else "n" for o in sc["ops"]}),
                       sorted({bool(o.get("fault")) for o in sc["ops"]}), len(sc["ops"])]
