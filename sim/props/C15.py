"""C15 — array antennas see the shared background delayed by their configured delays.

STREAM world.  Schedule: partition of the timeline into requests (each larger
than the maximum delay) interleaved with set_time / add_time / reset_start.
Carried state: the per-antenna cache of the last delay_i background samples and
the first-request over-read.  Oracle: RefArray — own[k] + background[k + max_delay - delay_i].
"""
import copy

import numpy as np

from . import C10
from ..core import ulp as core_ulp, gen_seed

ID = "C15"
WORLD = "stream"
LEVEL = "exploration"
EST_RUN_S = 0.04
RULE = ("scenario = MultiAntennaArray (1-5 antennas, delay vector all-zero / unsorted / repeated / numpy ints / omitted, "
        "1-2 pols, seeded noise and optional chirp on background and antenna streams) and a seeded interleaving of "
        "get_samples(n > max_delay) with set_time/add_time/reset_start; non-trivial = >= 2 requests in one observation "
        "so that the carried-over background cache is used; distinct = abstract fingerprint")
COMPONENTS = {"real": ["setigen.voltage.antenna.MultiAntennaArray / Antenna", "setigen.voltage.data_stream.DataStream / "
                       "BackgroundDataStream"], "stub": ["entropy seam (tripwire only)"]}
ASSUMPTIONS = C10.ASSUMPTIONS
PROBES = ["background_configured_after_first_use", "delays_argument_reused_by_caller", "complex_background", "noise_estimate_refreshed_mid_observation", "delays_omitted", "delays_all_zero", "delays_unsorted", "delays_repeated", "cache_carry_over",
          "reset_between_requests", "request_just_above_max_delay", "two_pols", "rejected_request"]


def generate(rng, tier):
    dyadic = rng.random() < 0.5
    if dyadic:
        fs = float(2 ** rng.choice([6, 10, 16]))
        t_start = rng.choice([0.0, 1.0, 37.25])
        fch1 = float(2 ** 20)
    else:
        fs = rng.choice([3e9, 1e6, 44100.0])
        t_start = rng.choice([0.0, 12.5, 0.1])
        fch1 = rng.choice([0.0, 6e9])
    ascending = rng.random() < 0.5
    n_ant = rng.choice([1, 2, 2, 3, 3, 4, 5])
    r = rng.random()
    if r < 0.15:
        delays = None
    elif r < 0.3:
        delays = [0] * n_ant
    else:
        delays = [rng.choice([0, 0, 1, 2, 3, 5, 8, 17, 40]) for _ in range(n_ant)]
    np_ints = rng.random() < 0.3
    pols = rng.choice([1, 2])
    maxd = max(delays) if delays else 0

    def src(p_noise):
        s = {"noise": None, "chirps": [], "customs": []}
        if rng.random() < p_noise:
            s["noise"] = [rng.choice([0.0, 1.0]), rng.choice([1.0, 0.5, 2.0])]
        if rng.random() < 0.3:
            off = rng.choice([0.013, 0.1, 0.37]) * fs / 2
            s["chirps"].append({"f_start": fch1 + off if ascending else fch1 - off,
                                "drift": rng.choice([0.0, 100.0, -3000.0]), "level": rng.choice([1.0, 0.2]),
                                "phase": rng.choice([0.0, 0.7])})
        return s
    bg = [src(0.9) for _ in range(pols)]
    own = [[src(0.7) for _ in range(pols)] for _ in range(n_ant)]
    bg_late = rng.random() < 0.15
    if rng.random() < 0.15 and not bg_late:
        # complex voltages (custom complex sources) in the background and in every antenna stream
        for s_ in bg + [x for o in own for x in o]:
            s_["customs"].append({"kind": "cexp", "a": rng.choice([1.0, 0.25, -2.0]), "f": rng.choice([0.5, 3.0, 40.0])})
    ops = []
    for _ in range(rng.randint(2, 10)):
        r = rng.random()
        if r < 0.7:
            ops.append({"op": "get", "n": maxd + rng.choice([1, 1, 2, 3, 7, 16, 50, 200, 1000])})
        elif r < 0.74 and maxd > 0:
            # a request the array must reject (not larger than the largest delay): it must leave no trace
            ops.append({"op": "reject_get", "n": rng.randint(1, maxd)})
        elif r < 0.77:
            # a stream's noise estimate is refreshed in mid-observation (it draws samples, but restores the clock)
            ops.append({"op": "update_noise", "which": rng.choice(["bg", "bg", "own"]), "pol": rng.randrange(2), "ant": rng.randrange(8),
                        "m": rng.choice([1, 10, 100, 1000])})
        elif r < 0.785:
            ops.append({"op": "reuse_delays_arg", "add": rng.choice([0, 1, 5])})
        elif r < 0.8:
            ops.append({"op": "set_time", "t": rng.choice([0.0, 4.0, 100.5]) if dyadic else rng.choice([0.0, 7.3, 100.0])})
        elif r < 0.9:
            ops.append({"op": "add_time", "t": rng.choice([0.0, 0.5, 2.0]) if dyadic else rng.choice([0.0, 0.1, 2.5])})
        else:
            ops.append({"op": "reset_start"})
    if rng.random() < (0.05 if tier == "quick" else 0.1):
        # SCALE: one very long request (chunked fast paths that only engage beyond some length; their remainder chunk may
        # be shorter than a delay), followed by ordinary ones that must still line up
        at = rng.randrange(len(ops) + 1)
        n_long = 2 ** rng.choice([17, 18, 18, 19]) * rng.choice([1, 1, 3]) + rng.choice([0, 0, 1, 5, 20, 33, 1000])
        ops[at:at] = [{"op": "get", "n": n_long} for _ in range(rng.choice([1, 1, 3, 4]))] + \
                     [{"op": "get", "n": maxd + rng.choice([1, 16, 200])}]
    if bg_late:
        ops.insert(rng.randint(0, len(ops)), {"op": "configure_bg"})
    return {"seams": {"entropy_salt": rng.randrange(1 << 20), "scratch": "c15"},
            "cfg": {"n_ant": n_ant, "delays": delays, "np_ints": np_ints, "pols": pols, "fs": fs, "fch1": fch1,
                    "ascending": ascending, "t_start": t_start, "seed": gen_seed(rng), "dyadic": dyadic, "bg_late": bg_late,
                    "bg": bg, "own": own},
            "ops": ops}


def simplify(sc):
    cfg = sc["cfg"]
    if cfg["pols"] == 2:
        c = copy.deepcopy(sc)
        c["cfg"]["pols"] = 1
        c["cfg"]["bg"] = c["cfg"]["bg"][:1]
        c["cfg"]["own"] = [o[:1] for o in c["cfg"]["own"]]
        yield c
    if cfg["n_ant"] > 1:
        for drop in range(cfg["n_ant"]):
            c = copy.deepcopy(sc)
            c["cfg"]["n_ant"] -= 1
            del c["cfg"]["own"][drop]
            if c["cfg"]["delays"] is not None:
                del c["cfg"]["delays"][drop]
            yield c
    if cfg["delays"]:
        for i, d in enumerate(cfg["delays"]):
            if d > 0:
                for nd in (0, d // 2, d - 1):
                    c = copy.deepcopy(sc)
                    c["cfg"]["delays"][i] = nd
                    yield c
    for lst in ("bg",):
        for p, s in enumerate(cfg[lst]):
            if s["chirps"]:
                c = copy.deepcopy(sc)
                c["cfg"][lst][p]["chirps"] = []
                yield c
    for a, o in enumerate(cfg["own"]):
        for p, s in enumerate(o):
            if s["chirps"] or s["noise"]:
                c = copy.deepcopy(sc)
                c["cfg"]["own"][a][p] = {"noise": None, "chirps": [], "customs": []}
                yield c
    for key, v in (("t_start", 0.0), ("np_ints", False)):
        if cfg[key] != v:
            c = copy.deepcopy(sc)
            c["cfg"][key] = v
            yield c
    for j, op in enumerate(sc["ops"]):
        if op["op"] == "get":
            maxd = max(cfg["delays"]) if cfg["delays"] else 0
            if op["n"] > maxd + 1:
                c = copy.deepcopy(sc)
                c["ops"][j]["n"] = max(maxd + 1, op["n"] // 2)
                yield c


def execute(sc, ctx):
    import setigen.voltage as sv
    cfg = sc["cfg"]
    dy = cfg["dyadic"]
    delays = cfg["delays"]
    n_ant, pols = cfg["n_ant"], cfg["pols"]
    if delays is None:
        ctx.hit("delays_omitted")
        eff = [0] * n_ant
        arg = None
    else:
        eff = list(delays)
        arg = np.array(delays) if cfg["np_ints"] else list(delays)
        if not any(eff):
            ctx.hit("delays_all_zero")
        if eff != sorted(eff):
            ctx.hit("delays_unsorted")
        if len(set(eff)) < len(eff):
            ctx.hit("delays_repeated")
    if pols == 2:
        ctx.hit("two_pols")
    if any(s_["customs"] for s_ in cfg["bg"]):
        ctx.hit("complex_background")
    maxd = max(eff)
    try:
        arr = sv.MultiAntennaArray(num_antennas=n_ant, sample_rate=cfg["fs"], fch1=cfg["fch1"],
                                   ascending=cfg["ascending"], num_pols=pols, delays=arg, t_start=cfg["t_start"],
                                   seed=cfg["seed"])
    except Exception as e:       # a valid configuration must construct
        ctx.violation("construct", "C15/construct/delays_%s/raises:%s" % ("omitted" if delays is None else "given",
                                                                          type(e).__name__), repr(e))
        return
    scfg = {"fs": cfg["fs"], "fch1": cfg["fch1"], "ascending": cfg["ascending"], "t_start": cfg["t_start"]}
    bg_streams = list(arr.bg_streams)
    own_streams = [list(a.streams) for a in arr.antennas]
    late = bool(cfg.get("bg_late"))
    empty_src = {"noise": None, "chirps": [], "customs": []}
    bg_refs = [C10.RefStream(scfg, dict(empty_src) if late else cfg["bg"][p], copy.deepcopy(bg_streams[p].rng.bit_generator.state))
               for p in range(pols)]
    own_refs = [[C10.RefStream(scfg, cfg["own"][a][p], copy.deepcopy(own_streams[a][p].rng.bit_generator.state))
                 for p in range(pols)] for a in range(n_ant)]
    if not late:
        C10.add_sources(bg_streams, {"sources": cfg["bg"]})
    for a in range(n_ant):
        C10.add_sources(own_streams[a], {"sources": cfg["own"][a]})
    bgbuf = [np.zeros(0) for _ in range(pols)]
    bgtol = [np.zeros(0) for _ in range(pols)]
    k0 = 0
    first = True
    gets_in_obs = 0
    nsamples = 0
    for op in sc["ops"]:
        ctx.op(op["op"])
        if op["op"] == "get":
            n = op["n"]
            if n == maxd + 1:
                ctx.hit("request_just_above_max_delay")
            try:
                out = np.asarray(arr.get_samples(n))
            except Exception as e:
                ctx.violation("get", "C15/get_samples/raises:%s/%s_request" % (type(e).__name__, "first" if first else "later"),
                              repr(e))
                return
            ctx.event("get", out)
            nsamples += n
            if not ctx.check(out.shape == (n_ant, pols, n), "shape", "C15/shape", lambda: "got %s" % (out.shape,)):
                return
            new = n + maxd if first else n
            if not first:
                ctx.hit("cache_carry_over")
            for p in range(pols):
                r = bg_refs[p]
                ts = r.times(new)
                t_tol = 0.0 if dy else r.time_tol(new)
                z = r.draw_noise(new)
                bgbuf[p] = np.concatenate([bgbuf[p], r.expected(ts, z)])
                bgtol[p] = np.concatenate([bgtol[p], r.value_tol(ts, t_tol)])
                r.advance(new)
            for a in range(n_ant):
                for p in range(pols):
                    r = own_refs[a][p]
                    ts = r.times(n)
                    t_tol = 0.0 if dy else r.time_tol(n)
                    z = r.draw_noise(n)
                    own = r.expected(ts, z)
                    r.advance(n)
                    lo = k0 + maxd - eff[a]
                    want = own + bgbuf[p][lo:lo + n]
                    tol = r.value_tol(ts, t_tol) + bgtol[p][lo:lo + n]
                    got = out[a][p]
                    ok = np.all(np.abs(got - want) <= tol)
                    if ok and r.noise_only and bg_refs[p].noise_only:
                        ok = np.array_equal(got, want)
                    if not ok:
                        dcls = "d=0" if eff[a] == 0 else ("d=max" if eff[a] == maxd else "0<d<max")
                        if maxd == 0:
                            dcls = "all_zero"
                        ctx.violation("alignment", "C15/alignment/%s_request/%s" % ("first" if first else "later", dcls),
                                      "antenna %d pol %d delays %r request n=%d k0=%d: %s" % (a, p, eff, n, k0, C10._fd(got, want)))
                        return
                    ctx.checks += 1
            k0 += n
            first = False
            gets_in_obs += 1
            if gets_in_obs >= 2:
                ctx.nontrivial = True
            ctx.check(not arr.start_obs, "clock", "C15/clock/start_obs_flag", "start_obs still set after a request")
        elif op["op"] == "update_noise":
            p = op["pol"] % pols
            if op["which"] == "bg":
                st, rf = bg_streams[p], bg_refs[p]
            else:
                a = op["ant"] % n_ant
                st, rf = own_streams[a][p], own_refs[a][p]
            before = (st.t_start, st.start_obs)
            st.update_noise(op["m"])
            rf.draw_noise(op["m"])
            ctx.event("update_noise", float(st.noise_std))
            ctx.hit("noise_estimate_refreshed_mid_observation" if not first else "noise_estimate_refreshed_before_observation")
            ctx.check((st.t_start, st.start_obs) == before, "clock", "C15/clock/update_noise_moves_clock",
                      lambda: "before %r after %r" % (before, (st.t_start, st.start_obs)))
        elif op["op"] == "configure_bg":
            # the shared background is only given its sources now, possibly after samples were already requested
            if late:
                C10.add_sources(bg_streams, {"sources": cfg["bg"]})
                for p in range(pols):
                    bg_refs[p].src = cfg["bg"][p]
                    bg_refs[p].noise_only = cfg["bg"][p]["noise"] is not None and not cfg["bg"][p]["chirps"] and not cfg["bg"][p]["customs"]
                late = False
                ctx.hit("background_configured_after_first_use" if not first else "background_configured_before_first_use")
            ctx.event("configure_bg")
        elif op["op"] == "reuse_delays_arg":
            # the caller re-uses the very array (or list) the delays were passed in for something else; the
            # array keeps the delays it was configured with
            if arg is not None and len(arg):
                if isinstance(arg, np.ndarray):
                    arg[:] = arg[::-1].copy() + op["add"]
                else:
                    arg.reverse()
                    arg[0] += op["add"]
                ctx.hit("delays_argument_reused_by_caller")
            ctx.event("reuse_delays_arg")
        elif op["op"] == "reject_get":
            try:
                arr.get_samples(op["n"])
                raised = False
            except Exception:
                raised = True
            ctx.event("reject_get", raised)
            if raised:
                ctx.fired("rejected_request")
            else:
                # accepted although not larger than the largest delay: outside the statement; stop judging this run
                ctx.hit("undersized_request_accepted")
                break
        else:
            if op["op"] == "set_time":
                arr.set_time(op["t"])
                for r in bg_refs + [x for o in own_refs for x in o]:
                    r.set_time(op["t"])
                ctx.check(arr.t_start == op["t"], "clock", "C15/clock/set_time_not_exact", "array t_start != t")
            elif op["op"] == "add_time":
                # every stream of the array is put at (array clock + t); the background
                # stream's own clock runs max_delay samples ahead of it
                base = [x for o in own_refs for x in o]
                arr.add_time(op["t"])
                now = base[0].now()
                for r in base:
                    r.add_time(op["t"])
                for r in bg_refs:
                    r.base = base[0].base
                    r.k = 0
                    r.requests = base[0].requests
                    r.tmax = max(r.tmax, base[0].tmax)
            else:
                base = [x for o in own_refs for x in o]
                arr.reset_start()
                for r in base:
                    r.add_time(0)
                for r in bg_refs:
                    r.base = base[0].base
                    r.k = 0
                    r.requests = base[0].requests
            if not first:
                ctx.hit("reset_between_requests")
            ctx.event(op["op"])
            ctx.check(bool(arr.start_obs), "clock", "C15/clock/start_obs_flag", "start_obs not set after time reset")
            bgbuf = [np.zeros(0) for _ in range(pols)]
            bgtol = [np.zeros(0) for _ in range(pols)]
            k0 = 0
            first = True
            gets_in_obs = 0
        if ctx.violations and ctx.stop_on_violation:
            return
    ctx.sim_time += nsamples / cfg["fs"]
    dclass = "omitted" if delays is None else ("zero" if not any(eff) else ("sorted" if eff == sorted(eff) else "unsorted"))
    ctx.fingerprint = [n_ant, pols, dclass, len(set(eff)) < len(eff), dy, cfg["ascending"],
                       sorted({op["op"] for op in sc["ops"]}),
                       sorted({min(op["n"] - maxd, 8) for op in sc["ops"] if op["op"] == "get"})]
