"""C04 — recorded files are well-formed GUPPI RAW and all readers agree on framing.

RAW world.  One writer, three independent readers (RefGuppi, blimpy's GuppiRaw,
setigen's own raw_utils / quick-look reducer); the directory listing order is a
nondeterminism source named in the statement and is simulated through the glob
seam.  Enumerated in every run of the check: header length modulo 32 cards x
DIRECTIO class; listing permutations of every multi-file recording.
"""
import copy
import itertools
import math
import os
from fractions import Fraction

import numpy as np

from ..models import guppi
from ..worlds import raw as W

ID = "C04"
WORLD = "raw"
LEVEL = "exploration"
EST_RUN_S = 0.06
RULE = ("scenario = seeded antenna/backend and 1-3 recordings whose header dictionaries are generated from valid cards "
        "(ints, floats, strings; attempts to override every configuration-owned key; PKTIDX/PKTSTART given or not; "
        "DIRECTIO absent/0/1/'0'/'1'; template on/off; default-argument recordings), optionally aborted by an injected "
        "write/open fault and retried; after each completed recording RefGuppi parses every file with no residue, "
        "checks counts/padding/PKTIDX/owned fields/user cards, blimpy GuppiRaw walks the same files, and setigen's "
        "read_header/get_blocks_in_file/get_blocks_per_file/get_total_blocks/get_raw_params/reducer are compared "
        "under several directory-listing orders; enumerated part: 32 header-length residues x 3 DIRECTIO classes; "
        "non-trivial = a completed recording judged by all readers; distinct = abstract fingerprint")
COMPONENTS = {"real": ["setigen.voltage.backend (record, _make_header, header population, template)",
                       "setigen.voltage.raw_utils (all readers)", "setigen.voltage.waterfall.get_waterfall_from_raw",
                       "blimpy.guppi.GuppiRaw", "real files in a per-run scratch dir"],
              "stub": ["glob seam (listing order)", "open() wrapper (faults)", "SimClock", "tqdm shim"]}
ASSUMPTIONS = ["generated string values are non-empty printable ASCII without quotes or '=' (blimpy's card splitter cannot "
               "parse '='), numeric values are finite ints/floats; keywords merely starting with END (ENDTIME) are generated but blimpy, which stops at them, is not consulted for those headers",
               "DIRECTIO restricted to 0/1 as in the statement (blimpy pads only for exactly 1)",
               "a torn file left by an injected fault is not judged; the retried recording is",
               "for recordings made onto existing RAW the provenance cards TELESCOP/OBSERVER/SRC_NAME are not judged (re-written by design) and inherited numeric cards may be quoted strings"]
PROBES = ["start_chan_reassigned_between_recordings", "caller_dictionary_passed_again", "recorded_over_previous_recording", "header_cards_mod32==0", "directio_pad_0_bytes", "directio_off_unaligned", "multi_file_last_partial",
          "listing_last_is_not_highest", "override_attempted", "default_header_argument", "template_loaded",
          "record_after_aborted_record", "array_source", "reducer_compared", "single_antenna_user_nants",
          "blimpy_full_walk", "end_prefixed_key", "recording_onto_existing_raw", "retry_over_leftover_files"]

OWNED = ["NBITS", "NPOL", "OBSNCHAN", "NANTS", "BLOCSIZE", "TBIN", "CHAN_BW", "OBSBW", "OBSFREQ", "SCANLEN"]
STR_POOL = ["x", "hello", "GBT", "some value", "a.b", "1e5", "B0329+54", "with  two  spaces", "UPPER_lower-09",
            "this string is quite a bit longer than eight characters!"]


def gen_header(rng, n_pad=None):
    cards = {}
    for i in range(rng.choice([0, 0, 1, 2, 3, 5])):
        key = "K%03d" % i if rng.random() < 0.7 else rng.choice(["MYKEY", "A", "LONGKEY8", "X_1", "OBS-ID"])
        r = rng.random()
        if r < 0.35:
            v = rng.choice([0, 1, -5, 42, 2 ** 40, 123456789])
        elif r < 0.65:
            v = rng.choice([0.0, 1.5, -2.25, 1e-05, 3.141592653589793, 1e+20, 0.1])
        else:
            v = rng.choice(STR_POOL)
        cards[key] = v
    if rng.random() < 0.4:
        for k in rng.sample(OWNED, rng.randint(1, 4)):
            cards[k] = rng.choice([16, 3, 1, 7.5, 999])
    r = rng.random()
    if r < 0.6:
        cards["DIRECTIO"] = rng.choice([0, 1, 1, "0", "1"])
    if rng.random() < 0.25:
        cards["PKTIDX"] = rng.choice([0, 7, 1000, 2 ** 33])
        if rng.random() < 0.5:
            cards["PKTSTART"] = rng.choice([0, cards["PKTIDX"], 5])
    if rng.random() < 0.1:
        # a valid keyword that merely starts with the letters END
        cards[rng.choice(["ENDTIME", "ENDIAN", "END_1"])] = rng.choice([1, 2.5, "x"])
    for k in ("TELESCOP", "OBSERVER", "SRC_NAME"):
        if rng.random() < 0.15:
            cards[k] = rng.choice(["GBT", "me", "VOYAGER1"])
    if n_pad is None:
        n_pad = rng.choice([0, 0, 0] + list(range(32)))
        if rng.random() < 0.03:
            # very long headers are valid too (hundreds of cards: site-specific metadata dumps)
            n_pad = rng.choice([120, 430, 500, 520, 700])
    for i in range(n_pad):
        cards["PAD%02d" % i if i < 100 else "P%06d" % i] = i
    # shuffle insertion order (the header is written in dictionary order)
    keys = list(cards)
    rng.shuffle(keys)
    return {"kind": "user", "cards": {k: cards[k] for k in keys}}


def gen_listings(rng, nfiles_hint):
    ls = ["sorted", "reverse"]
    for _ in range(2):
        ls.append(rng.randrange(1, 1 << 20))
    if rng.random() < 0.5:
        ls.append([rng.randrange(8) for _ in range(4)])
    return ls


def generate(rng, tier):
    ant = W.gen_antenna(rng)
    el = W.gen_elements(rng, tier)
    if rng.random() < 0.6:          # framing does not depend on signal content: keep most runs cheap
        el["T"] = rng.choice([1, 2])
        el["B"] = rng.choice([4, 8])
    # SCALE: blocks of more than 2**20 samples with a channel count that is not a power of two (slab-wise or chunked
    # writers that only engage beyond some block size, and their remainder handling)
    wide = rng.random() < (0.03 if tier == "quick" else 0.08)
    if wide:
        el["T"] = rng.choice([1, 2])
        el["B"] = rng.choice([64, 26, 32, 64])
    be = W.gen_backend(rng, ant, el, wide=wide)
    if rng.random() < 0.45 and not wide:
        # block sizes that are multiples of 512 bytes, as real DIRECTIO recordings have: there blimpy's
        # padding convention (pad the file offset) and the format's (pad the header) coincide on every block
        bps = 2 * ant["pols"] * el["bits"] // 8
        base = ant["n_ant"] * be["num_chans"] * bps * el["T"]
        w = (512 // math.gcd(512, base)) * rng.choice([1, 1, 2])
        if w * el["T"] * el["B"] <= 1 << 15:
            be["W"] = w
            be["spb"] = w * el["T"]
            be["block_size"] = be["spb"] * ant["n_ant"] * be["num_chans"] * bps
            be["num_subblocks"] = rng.randint(1, min(w, 6))
    ops = []
    for _ in range(rng.choice([1, 1, 2, 3]) if not wide else 1):
        hdr = {"kind": "default"} if rng.random() < 0.2 else gen_header(rng)
        op = {"op": "record", "num_blocks": rng.choice([1, 2, 3, 4, 5, 6]) if not wide else rng.choice([1, 2, 3]), "header": hdr,
              "template": rng.random() < 0.3, "digitize": rng.random() < 0.7, "listings": gen_listings(rng, 3),
              "reuse_dict": rng.random() < 0.3}
        if rng.random() < 0.15:
            op["fault"] = rng.choice([{"kind": "enospc", "at": rng.randint(1, 60), "torn": rng.random() < 0.5},
                                      {"kind": "eio", "at": rng.randint(1, 60)},
                                      {"kind": "open", "at": rng.randint(1, 2)},
                                      W.gen_interrupt(rng, 300)])
        if ops and rng.random() < 0.35:
            op["same_stem"] = True
        ops.append(op)
        if not op.get("fault") and rng.random() < 0.25 and not wide:
            # a recording made *onto* the one just written (from_data): its files are recordings too
            ops.append({"op": "inject_onto", "num_blocks": rng.choice([1, 2, op["num_blocks"], op["num_blocks"] + 2]),
                        "header": {"kind": "user", "cards": {}} if rng.random() < 0.5 else gen_header(rng, n_pad=rng.choice([0, 1, 5])),
                        "template": rng.random() < 0.5, "digitize": rng.random() < 0.5, "listings": gen_listings(rng, 3),
                        "num_subblocks": rng.randint(1, 4), "seed": rng.randrange(1 << 30)})
        if rng.random() < 0.15:
            ops.append({"op": "rebuild", "array": rng.random() < 0.5})
        elif rng.random() < 0.15:
            ops.append({"op": "set_start_chan", "frac": rng.randrange(64)})
    return {"seams": {"clock_origin": 1.7e9 + rng.randrange(10 ** 6), "clock_jitter_seed": rng.randrange(1 << 20),
                      "entropy_salt": rng.randrange(1 << 20), "scratch": "c04"},
            "ant": ant, "el": el, "be": be, "ops": ops}


def enumerated(tier):
    """All 32 residues of the header length x DIRECTIO class (x template in the thorough tier)."""
    import random
    out = []
    templates = [False, True] if tier == "thorough" else [False]
    for template in templates:
        for dio in (None, 0, 1):
            for n_pad in range(32):
                rng = random.Random(n_pad * 7 + (dio or 0) * 1000 + (5 if dio is None else 0) + 99 * template)
                ant = W.gen_antenna(rng, array=(n_pad % 5 == 0))
                el = W.gen_elements(rng)
                el["T"], el["B"] = 1, 4
                be = W.gen_backend(rng, ant, el)
                cards = {"PAD%02d" % i: i for i in range(n_pad)}
                if dio is not None:
                    cards["DIRECTIO"] = dio
                out.append({"seams": {"scratch": "c04e"}, "ant": ant, "el": el, "be": be,
                            "ops": [{"op": "record", "num_blocks": 3, "header": {"kind": "user", "cards": cards},
                                     "template": template, "digitize": True, "listings": ["sorted", "reverse", 3]}]})
    return out


def simplify(sc):
    from . import C02
    for c in C02.simplify(sc):
        yield c
    for j, op in enumerate(sc["ops"]):
        if op["op"] not in ("record", "inject_onto"):
            continue
        h = op["header"]
        if h["kind"] == "user":
            keys = list(h["cards"])
            pads = [k for k in keys if k.startswith("PAD")]
            if len(pads) >= 32:
                c = copy.deepcopy(sc)
                for k in pads[-32:]:
                    del c["ops"][j]["header"]["cards"][k]
                yield c
            for k in keys:
                if not k.startswith("PAD"):
                    c = copy.deepcopy(sc)
                    del c["ops"][j]["header"]["cards"][k]
                    yield c
            # removing a pad card changes the residue; try swapping one pad for nothing only last
            if pads:
                c = copy.deepcopy(sc)
                del c["ops"][j]["header"]["cards"][pads[-1]]
                yield c
        if len(op.get("listings", [])) > 1:
            for i in range(len(op["listings"])):
                c = copy.deepcopy(sc)
                del c["ops"][j]["listings"][i]
                yield c
        if op.get("reuse_dict"):
            c = copy.deepcopy(sc)
            c["ops"][j]["reuse_dict"] = False
            yield c


# ---------------------------------------------------------------------------

def _close(a, b, ulps=4, rel=None):
    a, b = float(a), float(b)
    if rel is not None:
        return abs(a - b) <= rel * max(abs(a), abs(b), 1e-300)
    return abs(a - b) <= ulps * math.ulp(max(abs(a), abs(b), 1e-300))


def expected_owned(ant, el, be, n_blocks):
    fs = Fraction(ant["fs"])
    B = el["B"]
    sign = 1 if ant["ascending"] else -1
    chan_bw = sign * fs / B
    nch = be["num_chans"]
    return {"NBITS": el["bits"], "NPOL": ant["pols"], "OBSNCHAN": nch * ant["n_ant"], "BLOCSIZE": be["block_size"],
            "TBIN": float(Fraction(B) / fs), "CHAN_BW": float(chan_bw / 10 ** 6), "OBSBW": float(chan_bw * nch / 10 ** 6),
            "OBSFREQ": float((Fraction(ant["fch1"]) + (be["start_chan"] + Fraction(nch - 1, 2)) * chan_bw) / 10 ** 6),
            "SCANLEN": float(Fraction(n_blocks * be["spb"] * B) / fs)}


def judge_recording(ctx, sc, ant, el, be, backend, stem, op, user_cards, used_default):
    """All C04 oracles on one completed recording."""
    n = op["num_blocks"]
    bpf = backend.blocks_per_file
    # ---- (1) framing ---------------------------------------------------------
    try:
        files, per_file, blocks = W.parse_recording(stem)
    except guppi.GuppiFormatError as e:
        cls = e.cls
        for rule, name in (("aligned512", "directio_on_aligned_header_padded_512"), ("never", "directio_on_but_no_padding"),
                           ("always", "padding_without_directio")):
            try:
                _parse_all(stem, rule)
                cls = "pad/" + name
                break
            except guppi.GuppiFormatError:
                continue
        ctx.violation("framing", "C04/framing/" + cls, str(e))
        return None
    want_files = -(-n // bpf)
    names_ok = [os.path.basename(f) for f in files] == ["%s.%04d.raw" % (os.path.basename(stem), i) for i in range(want_files)]
    if not ctx.check(names_ok, "files", "C04/files/wrong_file_set", lambda: "files %s for %d blocks, %d per file" % (
            [os.path.basename(f) for f in files], n, bpf)):
        return None
    want_pf = [bpf] * (n // bpf) + ([n % bpf] if n % bpf else [])
    if not ctx.check(per_file == want_pf, "files", "C04/files/blocks_per_file_distribution",
                     lambda: "blocks per file %s, want %s" % (per_file, want_pf)):
        return None
    if n % bpf and n > bpf:
        ctx.hit("multi_file_last_partial")
    h0 = blocks[0]["header"]
    dio = guppi.directio_on(h0)
    if blocks[0]["cards"] % 32 == 0:
        ctx.hit("header_cards_mod32==0")
        if dio:
            ctx.hit("directio_pad_0_bytes")
    if not dio and blocks[0]["header_bytes"] % 512:
        ctx.hit("directio_off_unaligned")
    # ---- (2) header content ----------------------------------------------------
    exp = expected_owned(ant, el, be, n)
    for b_i, b in enumerate(blocks):
        h = b["header"]
        for k, v in exp.items():
            if k not in h:
                ctx.violation("owned", "C04/owned/%s/missing" % k, "block %d has no %s" % (b_i, k))
                return None
            if isinstance(v, int):
                ok = isinstance(h[k], int) and h[k] == v
            elif k == "TBIN":
                ok = isinstance(h[k], (int, float)) and _close(h[k], v, rel=2e-14)
            elif k == "OBSFREQ":
                # a sum of fch1 and a channel offset that may nearly cancel: judged at the precision of its operands
                scale = max(abs(ant["fch1"]), abs(v * 1e6 - ant["fch1"]), abs(v * 1e6), 1.0) * 1e-6
                ok = isinstance(h[k], (int, float)) and abs(h[k] - v) <= 8 * math.ulp(scale)
            else:
                ok = isinstance(h[k], (int, float)) and _close(h[k], v, ulps=8)
            if not ok:
                ctx.violation("owned", "C04/owned/%s/%s" % (k, "overridden_by_user" if k in user_cards and
                                                             _same(h[k], user_cards[k]) else "wrong"),
                              "block %d: %s = %r, configuration says %r (user gave %r)" % (b_i, k, h[k], v, user_cards.get(k)))
                return None
        if ant["kind"] == "array":
            ok = h.get("NANTS") == ant["n_ant"]
        else:
            ok = "NANTS" not in h or h["NANTS"] == 1
        if not ok:
            ctx.violation("owned", "C04/owned/NANTS/%s" % ("array" if ant["kind"] == "array" else "single_antenna"),
                          "block %d: NANTS = %r for %s of %d antennas (user gave %r)" % (
                              b_i, h.get("NANTS"), ant["kind"], ant["n_ant"], user_cards.get("NANTS")))
            return None
        ctx.checks += 1
    # PKTIDX / PKTSTART / PKTSTOP
    spb = be["spb"]
    p0 = blocks[0]["header"].get("PKTIDX")
    if not ctx.check(isinstance(p0, int), "pktidx", "C04/pktidx/missing_or_not_int", repr(p0)):
        return None
    if "PKTIDX" in user_cards:
        ctx.check(p0 == int(user_cards["PKTIDX"]), "pktidx", "C04/pktidx/user_start_not_honoured",
                  lambda: "first PKTIDX %r, user gave %r" % (p0, user_cards["PKTIDX"]))
    for b_i, b in enumerate(blocks):
        if not ctx.check(b["header"].get("PKTIDX") == p0 + b_i * spb, "pktidx", "C04/pktidx/step_not_samples_per_block",
                         lambda: "block %d PKTIDX %r, want %d + %d*%d" % (b_i, b["header"].get("PKTIDX"), p0, b_i, spb)):
            return None
    ps, pe = h0.get("PKTSTART"), h0.get("PKTSTOP")
    if "PKTSTART" in user_cards:
        ctx.check(ps == int(user_cards["PKTSTART"]), "pktidx", "C04/pktidx/user_pktstart_not_honoured", repr(ps))
    elif not used_default:
        ctx.check(ps == p0, "pktidx", "C04/pktidx/first_block_not_at_pktstart", lambda: "PKTSTART %r, first PKTIDX %r" % (ps, p0))
    def _int(v):
        # cards inherited from an input file are re-written as quoted strings ('0       '): same number
        try:
            return int(str(v).strip())
        except (TypeError, ValueError):
            return None
    ctx.check(_int(ps) is not None and _int(pe) is not None and _int(pe) - _int(ps) == n * spb, "pktidx", "C04/pktidx/pktstop",
              lambda: "PKTSTART %r PKTSTOP %r for %d blocks of %d" % (ps, pe, n, spb))
    # headers identical from block to block except PKTIDX
    r0 = {k: v for k, v in blocks[0]["raw"].items() if k != "PKTIDX"}
    for b_i, b in enumerate(blocks[1:], 1):
        rb = {k: v for k, v in b["raw"].items() if k != "PKTIDX"}
        if not ctx.check(rb == r0 and list(b["raw"]) == list(blocks[0]["raw"]), "header", "C04/header/differs_between_blocks",
                         lambda: "block %d header differs from block 0: %s" % (b_i, sorted(set(rb.items()) ^ set(r0.items()))[:4])):
            return None
    # user cards preserved
    for k, v in user_cards.items():
        if k in OWNED or k in ("PKTIDX", "PKTSTART", "PKTSTOP"):
            continue
        got = h0.get(k, "<absent>")
        if k == "DIRECTIO":
            ok = got != "<absent>" and int(str(got)) == int(str(v))
        else:
            ok = _same(got, v)
        if not ctx.check(ok, "user", "C04/user_card/%s" % ("lost" if got == "<absent>" else "changed:" + type(v).__name__),
                         lambda: "card %s: user gave %r, file has %r" % (k, v, got)):
            return None
    if op.get("template"):
        ctx.hit("template_loaded")
    # ---- (3) blimpy --------------------------------------------------------------
    if any(k.startswith("END") for k in h0):
        ctx.hit("end_prefixed_key")      # blimpy stops at any card starting with END: its limitation, not judged
    else:
        _judge_blimpy(ctx, files, blocks)
    if ctx.violations:
        return blocks
    # ---- (4) setigen's own readers under listing orders ---------------------------
    _judge_readers(ctx, sc, ant, el, be, stem, op, files, per_file, blocks)
    ctx.nontrivial = True
    return blocks


def _same(got, v):
    if isinstance(v, str):
        return isinstance(got, str) and got == v.strip()
    if isinstance(v, bool):
        return got == v
    if isinstance(v, int):
        return isinstance(got, int) and got == v
    if isinstance(v, float):
        return isinstance(got, (int, float)) and float(got) == v
    return False


def _parse_all(stem, rule):
    for p in W.list_files(stem):
        with open(p, "rb") as f:
            guppi.parse_file(f.read(), pad_rule=rule)


def _judge_blimpy(ctx, files, blocks):
    import contextlib
    import io
    from blimpy.guppi import GuppiRaw
    by_file = {}
    for b in blocks:
        by_file.setdefault(b["file"], []).append(b)
    for i, path in enumerate(files):
        # blimpy pads the *file offset* of the data to a multiple of 512, the format pads the *header*;
        # the two coincide iff every block starts on a 512-byte boundary (always true for block 0)
        coincide = all(b["offset"] % 512 == 0 for b in by_file[i]) or not guppi.directio_on(by_file[i][0]["header"])
        nwalk = len(by_file[i]) if coincide else 1
        try:
            with contextlib.redirect_stdout(io.StringIO()):
                g = GuppiRaw(path) if coincide else GuppiRaw(path, n_blocks=len(by_file[i]))
                nb = g.n_blocks
                seen = []
                g.file_obj.seek(0)
                for _ in range(nwalk):
                    hdr, idx = g.read_header()
                    seen.append((hdr, idx))
                    g.file_obj.seek(idx + int(hdr["BLOCSIZE"]))
                g.file_obj.close()
        except SystemExit as e:
            ctx.violation("blimpy", "C04/blimpy/cannot_frame_file", "blimpy exits with %r on %s" % (e.code, os.path.basename(path)))
            return
        except Exception as e:
            ctx.violation("blimpy", "C04/blimpy/raises:" + type(e).__name__, repr(e))
            return
        if coincide and len(by_file[i]) > 1:
            ctx.hit("blimpy_full_walk")
        if not ctx.check(nb == len(by_file[i]), "blimpy", "C04/blimpy/block_count",
                         lambda: "blimpy counts %d blocks in %s, RefGuppi %d" % (nb, os.path.basename(path), len(by_file[i]))):
            return
        for (hdr, idx), b in zip(seen, by_file[i]):
            if not ctx.check(idx == b["data_offset"], "blimpy", "C04/blimpy/data_offset",
                             lambda: "blimpy data offset %d, RefGuppi %d" % (idx, b["data_offset"])):
                return
            if not ctx.check(hdr == b["header"], "blimpy", "C04/blimpy/header_dict",
                             lambda: "differ at %s" % (sorted(k for k in set(hdr) | set(b["header"])
                                                               if hdr.get(k) != b["header"].get(k))[:5],)):
                return


def _judge_readers(ctx, sc, ant, el, be, stem, op, files, per_file, blocks):
    import setigen.voltage.raw_utils as ru
    seams = ctx.seams
    total = len(blocks)
    h0 = blocks[0]
    # read_header
    want = {k: v.strip().strip("'").strip() for k, v in h0["raw"].items()}
    for i, path in enumerate(files):
        try:
            got = ru.read_header(path)
        except Exception as e:
            ctx.violation("readers", "C04/readers/read_header/raises:" + type(e).__name__, repr(e))
            return
        hb = [b for b in blocks if b["file"] == i][0]
        wantf = {k: v.strip().strip("'").strip() for k, v in hb["raw"].items()}
        gotn = {k: str(v).strip() for k, v in got.items()}
        if not ctx.check(gotn == wantf and list(got) == list(hb["raw"]), "readers", "C04/readers/read_header",
                         lambda: "file %d: differ at %s" % (i, sorted(k for k in set(gotn) | set(wantf)
                                                                     if gotn.get(k) != wantf.get(k))[:5])):
            return
    aligned = "aligned" if h0["header_bytes"] % 512 == 0 else "unaligned"
    cls = "directio=%d,%s" % (1 if guppi.directio_on(h0["header"]) else 0, aligned)
    for i, path in enumerate(files):
        try:
            c = ru.get_blocks_in_file(path)
        except Exception as e:
            ctx.violation("readers", "C04/readers/get_blocks_in_file/raises:" + type(e).__name__, repr(e))
            return
        if not ctx.check(c == per_file[i], "readers", "C04/readers/get_blocks_in_file/" + cls,
                         lambda: "file %d: library %r, RefGuppi %d" % (i, c, per_file[i])):
            return
    listings = op.get("listings") or ["sorted"]
    if len(files) in (2, 3, 4) and sc.get("meta", {}).get("enum") is not None:
        listings = list(listings) + [list(p) for p in itertools.permutations(range(len(files)))]
    for mode in listings:
        seams.listing = mode
        tag = "sorted" if mode == "sorted" else "permuted"
        try:
            bpf = ru.get_blocks_per_file(stem)
            tb = ru.get_total_blocks(stem)
            rp = ru.get_raw_params(stem, start_chan=be["start_chan"])
        except Exception as e:
            ctx.violation("readers", "C04/readers/%s_listing/raises:%s@%s" % (tag, type(e).__name__,
                                                                            W.innermost_setigen_frame(e)), repr(e))
            seams.listing = "sorted"
            return
        finally:
            pass
        ctx.event("readers", bpf, tb)
        ok1 = ctx.check(bpf == per_file[0], "readers", "C04/readers/get_blocks_per_file/" + cls,
                        lambda: "library %r, RefGuppi %d" % (bpf, per_file[0]))
        ok2 = ctx.check(tb == total, "readers", "C04/readers/get_total_blocks/%s_listing/%s" % (tag, cls),
                        lambda: "library %r, RefGuppi %d (files %s, listing %r)" % (tb, total, per_file, mode))
        if not (ok1 and ok2):
            seams.listing = "sorted"
            return
        exp = expected_owned(ant, el, be, total)
        chan_bw = exp["CHAN_BW"] * 1e6
        want_rp = {"num_bits": el["bits"], "num_pols": ant["pols"], "block_size": be["block_size"],
                   "num_antennas": ant["n_ant"], "num_chans": be["num_chans"], "ascending": ant["ascending"]}
        for k, v in want_rp.items():
            if not ctx.check(rp.get(k) == v, "readers", "C04/readers/get_raw_params/" + k,
                             lambda: "%s: library %r, configuration %r" % (k, rp.get(k), v)):
                seams.listing = "sorted"
                return
        tol = 64 * math.ulp(max(abs(ant["fch1"]), abs(exp["OBSFREQ"] * 1e6), 1.0))
        okf = abs(rp["fch1"] - ant["fch1"]) <= tol and _close(rp["chan_bw"], chan_bw, ulps=16) \
            and _close(rp["tbin"], exp["TBIN"], rel=2e-14) and _close(rp["obs_length"], exp["SCANLEN"], ulps=8)
        if not ctx.check(okf, "readers", "C04/readers/get_raw_params/frequencies",
                         lambda: "library %r vs fch1 %r chan_bw %r tbin %r" % (rp, ant["fch1"], chan_bw, exp["TBIN"])):
            seams.listing = "sorted"
            return
    seams.listing = "sorted"
    # ---- (5) quick-look reducer pins the header skip ------------------------------
    if ant["pols"] == 2 and el["bits"] == 8:
        import setigen.voltage.waterfall as wf
        obsnchan = be["num_chans"] * ant["n_ant"]
        try:
            wfl = np.asarray(wf.get_waterfall_from_raw(files[0], be["block_size"], obsnchan, int_factor=1, fftlength=1))
        except Exception as e:
            ctx.violation("readers", "C04/readers/reducer/raises:%s/%s" % (type(e).__name__, cls), repr(e))
            return
        z = guppi.decode_block(blocks[0]["data"], obsnchan, 2, 8)
        power = (np.abs(z[:, :, 0]) ** 2 + np.abs(z[:, :, 1]) ** 2).T
        ctx.hit("reducer_compared")
        ctx.check(wfl.shape == power.shape and np.allclose(wfl, power, rtol=1e-12, atol=1e-9), "readers",
                  "C04/readers/reducer_header_skip/" + cls,
                  lambda: "reducer output %s differs from |x|^2+|y|^2 of the first block %s" % (wfl.shape, power.shape))


def execute(sc, ctx):
    ant, el, be = sc["ant"], sc["el"], sc["be"]
    if ant["kind"] == "array":
        ctx.hit("array_source")
    antenna = W.build_antenna(ant)
    log = W.RequestLog(antenna, ctx)
    backend = W.build_backend(antenna, el, be)
    prev_dict = None
    aborted = False
    hist = []
    last_ok = None
    last_stem = None
    for j, op in enumerate(sc["ops"]):
        ctx.op(op["op"] + ("+fault" if op.get("fault") else ""))
        if op["op"] == "set_start_chan":
            # another coarse-channel bank of the same antenna, recorded by the same backend object
            nmax = el["B"] // 2 - be["num_chans"]
            be = dict(be, start_chan=op["frac"] % (nmax + 1))
            backend.start_chan = W._icast(el)(be["start_chan"])
            ctx.hit("start_chan_reassigned_between_recordings")
            ctx.event("set_start_chan", be["start_chan"])
            continue
        if op["op"] == "rebuild":
            if op.get("array") != (ant["kind"] == "array"):
                # switch between single antenna and array with the same element configuration
                import random
                r2 = random.Random(j * 7919 + ant["seed"])
                ant = W.gen_antenna(r2, array=op.get("array"))
                be = W.gen_backend(r2, ant, el)
                hist.append("switch_" + ant["kind"])
            antenna = W.build_antenna(ant)
            log = W.RequestLog(antenna, ctx)
            backend = W.build_backend(antenna, el, be)
            ctx.event("rebuild")
            continue
        if op["op"] == "inject_onto":
            if last_ok is None:
                continue
            in_stem, n_in, in_bpf = last_ok
            import setigen.voltage as sv
            a2 = W.build_antenna(dict(ant, seed=op["seed"]))
            dig, fb, _ = W.build_elements(el)
            ctx.seams.listing = (op.get("listings") or ["sorted"])[-1]
            try:
                b2 = sv.RawVoltageBackend.from_data(in_stem, a2, digitizer=dig, filterbank=fb, start_chan=be["start_chan"],
                                                    num_subblocks=op["num_subblocks"])
            except Exception as e:
                ctx.violation("from_data", "C04/from_data/raises:%s@%s" % (type(e).__name__, W.innermost_setigen_frame(e)), repr(e))
                return
            finally:
                ctx.seams.listing = "sorted"
            for row_i, row in enumerate(b2.filterbank):
                for p_i, f in enumerate(row):
                    f.estimate_channelized_stds(factor=50, seed=op["seed"] + 3 * row_i + p_i)
            out_stem = ctx.seams.path("inj%d" % j)
            hdr = W.header_arg(op["header"])
            # provenance cards are deliberately re-written to "<input value>_SETIGEN" when injecting onto existing data
            ucards = {k: v for k, v in op["header"].get("cards", {}).items() if k not in ("TELESCOP", "OBSERVER", "SRC_NAME")}
            rec = dict(op, _log=None)
            status, exc = W.do_record(ctx, b2, out_stem, rec, header=hdr)
            if status != "ok":
                ctx.violation("record", "C04/record_onto/raises:%s@%s" % (type(exc).__name__, W.innermost_setigen_frame(exc)), repr(exc))
                return
            ctx.hit("recording_onto_existing_raw")
            ctx.event("inject_onto", j)
            n_out = min(op["num_blocks"], n_in)
            # PKTIDX / PKTSTART come from the input unless the user gave them: judged like a caller-supplied history
            judge_recording(ctx, sc, ant, el, be, b2, out_stem, dict(op, num_blocks=n_out), ucards, True)
            if ctx.violations and ctx.stop_on_violation:
                return
            continue
        stem = ctx.seams.path("r%d" % j)
        if op.get("same_stem") and last_stem is not None:
            # recorded over the files of the previous recording (which the library's readers have already looked at)
            stem = last_stem
            ctx.hit("recorded_over_previous_recording")
        hspec = op["header"]
        used_default = hspec["kind"] == "default"
        if used_default:
            header, user_cards = None, {}
            ctx.hit("default_header_argument")
        elif op.get("reuse_dict") and prev_dict is not None:
            header, user_cards = prev_dict, dict(prev_user)
        else:
            header = W.header_arg(hspec)
            user_cards = dict(hspec["cards"])
        if any(k in OWNED for k in user_cards):
            ctx.hit("override_attempted")
        if ant["kind"] == "single" and "NANTS" in user_cards:
            ctx.hit("single_antenna_user_nants")
        op2 = dict(op)
        op2["_log"] = log
        status, exc = W.do_record(ctx, backend, stem, op2, header=header, use_default_header=used_default)
        if status == "fault":
            aborted = True
            ctx.event("record_aborted")
            op2 = dict(op, fault=None)
            op2["_log"] = log
            if (j + op["num_blocks"]) % 2:
                stem = ctx.seams.path("r%dretry" % j)
            else:
                ctx.hit("retry_over_leftover_files")       # same stem: over whatever the aborted attempt left behind
            if not used_default and not (op.get("reuse_dict") and header is prev_dict):
                header = W.header_arg(hspec)
            status, exc = W.do_record(ctx, backend, stem, op2, header=header, use_default_header=used_default)
            ctx.hit("record_after_aborted_record")
        if status != "ok":
            ctx.violation("record", "C04/record/raises:%s@%s" % (type(exc).__name__, W.innermost_setigen_frame(exc)), repr(exc))
            return
        if not used_default:
            prev_dict, prev_user = header, user_cards
        if op.get("same_stem"):
            # files of the earlier, longer recording that this one did not write are not part of it
            nfiles = -(-op["num_blocks"] // backend.blocks_per_file)
            for k, pth in enumerate(W.list_files(stem)):
                if k >= nfiles:
                    os.remove(pth)
        last_stem = stem
        ctx.event("record", j)
        # a reused caller dictionary legitimately carries whatever the caller left in it; C12 judges
        # history effects.  Here only what the statement says about one recording is judged.
        reused = bool(op.get("reuse_dict")) and header is prev_dict and j > 0
        # (since fix 0897f2c record() works on a copy) a dictionary the caller passes a second time still holds the cards
        # the caller put there, so the second recording is judged against those, like the first
        blocks = judge_recording(ctx, sc, ant, el, be, backend, stem, op, user_cards, used_default)
        if reused:
            ctx.hit("caller_dictionary_passed_again")
        last_ok = (stem, op["num_blocks"], backend.blocks_per_file) if blocks and not ctx.violations else None
        ctx.sim_time += op["num_blocks"] * be["spb"] * el["B"] / ant["fs"]
        if ctx.violations and ctx.stop_on_violation:
            return
    hkinds = sorted({(o["op"], o["header"]["kind"], bool(o.get("template")), _dio_class(o["header"])) for o in sc["ops"] if o["op"] in ("record", "inject_onto")},
                    key=str)
    ctx.fingerprint = [ant["kind"], ant["n_ant"], ant["pols"], el["bits"], hkinds,
                       sorted({min(o["num_blocks"], 4) for o in sc["ops"] if o["op"] == "record"}), be["blocks_per_file"],
                       sorted({o["op"] + ("+fault" if o.get("fault") else "") for o in sc["ops"]}), hist]


def _dio_class(h):
    if h["kind"] != "user":
        return "default"
    v = h["cards"].get("DIRECTIO", "absent")
    return str(v)
