"""C17 — derived frames (slice, de-drift, integrate) keep data and axis registration.

FRAME world, with the caveat stated in DESIGN.md: the slicing / shifting /
averaging arithmetic is pure; what qualifies for simulation is that "keep the
parent's start time" depends on the clock (derived frames are built through
from_data, which reads time.time()), that "a copy, not a view" is only
observable through later mutations, and that the statement must hold for
parents produced by any history (loaded float32, already derived, carrying a
Waterfall).  Every derive op is checked as it happens, under a jumping clock.
"""
import copy
import math

import numpy as np

from ..worlds import frame as F

ID = "C17"
WORLD = "frame"
LEVEL = "exploration"
EST_RUN_S = 0.1
RULE = ("scenario = a root frame by any construction route (incl. float32 data loaded from a RefSigproc .fil), prior history "
        "(noise, a box-profile drifting signal, get_waterfall, copy) and a seeded sequence of derive ops (get_slice, dedrift "
        "with explicit rate of either sign / from metadata / beyond the limit, integrate sum/mean on both axes with and "
        "without normalisation, spectrum, timeseries) whose parents are drawn from all frames alive (so derived-of-derived), "
        "with SimClock jumps in between; oracle = the statement's formulas on the parent's data and axes, parent's "
        "orientation/resolutions/start time/source name, mutation isolation both ways; non-trivial = >= 2 derive ops; "
        "distinct = abstract fingerprint")
COMPONENTS = {"real": ["setigen.slice.get_slice", "setigen.dedrift.dedrift", "setigen.integrate (integrate, spectrum, timeseries)",
                       "setigen.frame.Frame.from_data", "blimpy Waterfall (loaded parents)"],
              "stub": ["SimClock with jumps", "RefSigproc writer", "entropy seam"]}
ASSUMPTIONS = ["slice bounds 0 <= l < r <= fchans, also spelled from the end of the band (negative)", "a de-drift row whose offset lies within 1e-9 of a rounding boundary is not judged, unless the offset is exactly k + 1/2 in every evaluation order (then round() means half to even)",
               "axes compared within 8 ulp of the largest frequency / time"]
PROBES = ["more_than_64_distinct_rates_in_one_process", "dedrift_of_consolidated_frame_with_gaps", "slice_bounds_counted_from_the_end", "dedrift_exact_half_channel_tie", "parent_loaded_float32", "parent_has_waterfall", "derived_of_derived", "dedrift_negative", "dedrift_from_metadata",
          "dedrift_rejected_too_steep", "clock_jump", "spectrum_frame", "timeseries_frame", "dedrift_peak_checked", "normalised"]


def tie_class(eff, i, dt, df):
    """Where does |d|*i*dt/df sit relative to a rounding boundary?  "exact": the rational value is k + 1/2 and every
    association order of the floating-point evaluation hits it exactly, so round() (half to even, as in Python and
    numpy) has one answer whatever the implementation; "near": within 1e-9 of a boundary otherwise (either side is
    acceptable); "clear"."""
    from fractions import Fraction
    a = abs(float(eff))
    xq = Fraction(a) * i * Fraction(float(dt)) / Fraction(float(df))
    frac = xq - (xq.numerator // xq.denominator)
    if frac == Fraction(1, 2):
        xf = float(xq)
        vals = [a * i * dt / df, a * (i * dt) / df, a * i * (dt / df), (a * dt / df) * i, (a / df) * i * dt, (a * dt) * i / df]
        return "exact" if all(v == xf for v in vals) else "near"
    return "near" if abs(float(frac) - 0.5) < 1e-9 else "clear"


def generate(rng, tier):
    spec = F.gen_frame_spec(rng)
    g = spec["geom"]
    if g["tchans"] < 2:
        g["tchans"] = 2
    # SCALE: frames of 3e5..2e6 samples with sizes that are not powers of two (block-wise reductions and gathers that
    # only engage beyond some size, and how they weigh or place their remainder)
    big = rng.random() < (0.04 if tier == "quick" else 0.1)
    if big:
        g["tchans"], g["fchans"] = rng.choice([(100, 4096), (16, 20000), (300, 4096), (60, 30000), (17, 65537)])
        spec["route"] = rng.choice(["sizes", "data", "from_data"])
    pre = []
    if rng.random() < 0.6:
        pre.append({"op": "noise"})
    drift_px = rng.choice([0.0, 0.5, 1.0, -1.0, 1.7, -0.3])
    if rng.random() < 0.7:
        pre.append({"op": "box_signal", "drift_px": drift_px, "idx": rng.choice([0.3, 0.5, 0.7])})
    if rng.random() < 0.4:
        pre.append({"op": "get_waterfall"})
    if rng.random() < 0.2:
        pre.append({"op": "copy"})
    ops = []
    for _ in range(rng.randint(1, 6) if not big else rng.randint(2, 4)):
        parent = rng.randrange(0, 8)
        r = rng.random()
        if big:
            r = rng.choice([0.2, 0.5, 0.7, 0.7, 0.9, 0.95])      # mostly reductions, on the big root or its first children
            parent = rng.choice([0, 0, 1])
        if rng.random() < 0.3:
            ops.append({"op": "clock_jump", "delta": rng.choice([3600.0, -3600.0, 86400.0 * 3, -1e-3])})
        if r < 0.3:
            a, b = sorted([rng.random(), rng.random()])
            ops.append({"op": "slice", "parent": parent, "a": a, "b": b})
            if rng.random() < 0.2:
                ops[-1]["neg"] = rng.choice(["l", "both"])
        elif r < 0.65:
            mode = rng.choice(["rate", "rate", "rate", "own", "metadata", "too_steep"])
            ops.append({"op": "dedrift", "parent": parent, "mode": mode, "px": rng.choice([0.0, 0.4, 1.0, -1.0, 2.3, -0.6, 0.05, 0.5, -0.5, 1.5, -2.5, 0.25]),
                        "sign": rng.choice([1, -1])})
        elif r < 0.85:
            ops.append({"op": "integrate", "parent": parent, "axis": rng.choice(["t", "f", 0, 1]), "mode": rng.choice(["mean", "sum", "s"]),
                        "normalize": rng.random() < 0.3, "as_frame": rng.random() < 0.5})
        elif r < 0.93:
            ops.append({"op": "spectrum", "parent": parent, "mode": rng.choice(["mean", "sum"]), "normalize": rng.random() < 0.2})
        else:
            ops.append({"op": "timeseries", "parent": parent, "mode": rng.choice(["mean", "sum"]), "normalize": rng.random() < 0.2})
    if rng.random() < (0.06 if tier == "quick" else 0.12):
        # SCALE: a de-Doppler search - one rate, then a grid of many other trial rates on the same frame, then the first
        # rate again (anything memoised per rate or geometry with a bounded size only goes wrong after it wraps)
        a = {"op": "dedrift", "parent": 0, "mode": "rate", "px": rng.choice([0.4, 1.0, -1.0, 2.3, -0.6, 0.25]), "sign": 1}
        ops.extend([a, {"op": "trial_grid", "parent": 0, "n": rng.choice([70, 100, 130, 200]), "step": rng.choice([0.011, 0.0173, 0.05]),
                        "sign": rng.choice([1, -1])}, dict(a)])
        if rng.random() < 0.5:
            ops.append(dict(a, px=-a["px"]))
    return {"seams": {"clock_origin": 1.7e9 + rng.randrange(10 ** 6), "clock_jitter_seed": rng.randrange(1 << 20),
                      "entropy_salt": rng.randrange(1 << 20), "scratch": "c17"},
            "root": spec, "pre": pre, "ops": ops, "drift_px": drift_px,
            "consolidated_dedrift": ({"gap": rng.choice([1, 5, 0.5, 40]), "px": rng.choice([0.4, 1.0, -1.0, -0.6, 0.5])}
                                     if rng.random() < 0.15 else None)}


def simplify(sc):
    for i in range(len(sc["pre"])):
        c = copy.deepcopy(sc)
        del c["pre"][i]
        yield c
    if sc["root"]["route"] != "sizes":
        c = copy.deepcopy(sc)
        c["root"]["route"] = "sizes"
        yield c
    for key, v in (("fchans", 8), ("tchans", 2)):
        if sc["root"]["geom"][key] > v:
            c = copy.deepcopy(sc)
            c["root"]["geom"][key] = v
            yield c
    for key in ("mjd", "source_name"):
        if sc["root"].get(key) is not None:
            c = copy.deepcopy(sc)
            c["root"][key] = None
            yield c
    for j, op in enumerate(sc["ops"]):
        if op.get("parent", 0) != 0:
            c = copy.deepcopy(sc)
            c["ops"][j]["parent"] = 0
            yield c
        if op.get("normalize"):
            c = copy.deepcopy(sc)
            c["ops"][j]["normalize"] = False
            yield c


def _axis_ok(got, want, scale):
    got, want = np.asarray(got, dtype=float), np.asarray(want, dtype=float)
    return got.shape == want.shape and np.all(np.abs(got - want) <= 8 * math.ulp(max(abs(scale), 1e-300)))


def _common(ctx, op_name, parent, child, pinfo, check_time_axis=True, time_scaled=None, freq_scaled=None):
    """Orientation, resolutions, start time, source name."""
    ok = ctx.check(bool(child.ascending) == bool(parent.ascending), "keep", "C17/%s/orientation_changed" % op_name, "")
    if freq_scaled is None:
        ok &= ctx.check(child.df == parent.df, "keep", "C17/%s/df_changed" % op_name, lambda: "%r vs %r" % (child.df, parent.df))
    if time_scaled is None:
        ok &= ctx.check(child.dt == parent.dt, "keep", "C17/%s/dt_changed" % op_name, lambda: "%r vs %r" % (child.dt, parent.dt))
    ok &= ctx.check(child.t_start == parent.t_start, "keep", "C17/%s/start_time_not_parents" % op_name,
                    lambda: "derived t_start %r, parent %r (clock now %r)" % (child.t_start, parent.t_start, ctx.seams.clock.now))
    ok &= ctx.check(child.source_name == parent.source_name, "keep", "C17/%s/source_name_not_parents" % op_name,
                    lambda: "derived %r, parent %r" % (child.source_name, parent.source_name))
    return ok


def _isolation(ctx, op_name, parent, child):
    """A copy, not a view: mutate either side, the other stays bit-identical."""
    pd = np.array(parent.data, copy=True)
    cd = np.array(child.data, copy=True)
    child.data[0, 0] += 1.0
    ok = ctx.check(np.array_equal(parent.data, pd, equal_nan=True), "copy", "C17/%s/child_is_view_of_parent" % op_name, "mutating the derived frame changed the parent")
    child.data[0, 0] = cd[0, 0]
    parent.data[0, 0] += 1.0
    ok &= ctx.check(np.array_equal(child.data, cd, equal_nan=True), "copy", "C17/%s/child_is_view_of_parent" % op_name, "mutating the parent changed the derived frame")
    parent.data[0, 0] = pd[0, 0]
    ok &= ctx.check(not np.shares_memory(parent.data, child.data), "copy", "C17/%s/shares_memory" % op_name, "")
    return ok


def execute(sc, ctx):
    import setigen as stg
    from astropy.stats import sigma_clip
    spec = sc["root"]
    root, info = F.build_frame(spec, ctx)
    g = spec["geom"]
    if root.data.dtype == np.float32:
        ctx.hit("parent_loaded_float32")
    signal_rate = None
    sig_level = 1000.0
    for op in sc["pre"]:
        ctx.op("pre:" + op["op"])
        if op["op"] == "noise":
            root.add_noise(10, 1, noise_type="gaussian")
        elif op["op"] == "box_signal":
            rate = op["drift_px"] * root.df / root.dt
            f0 = root.fmin + op["idx"] * root.fchans * root.df
            # well above anything already in the frame (preloaded marker data ramps up with the channel number)
            sig_level = 1000.0 + 4.0 * float(np.max(np.abs(root.data)))
            inj = root.add_signal(stg.constant_path(f_start=f0, drift_rate=rate), stg.constant_t_profile(level=sig_level),
                                  stg.box_f_profile(width=root.df), stg.constant_bp_profile(level=1))
            # a one-channel box centred exactly between two channels (odd channel counts) selects no pixel at all:
            # the one-column clause is only judged when every row really carries the signal
            if np.all(np.max(inj, axis=1) >= 0.9 * sig_level):
                signal_rate = (rate, f0)
            root.add_metadata({"drift_rate": rate})
        elif op["op"] == "get_waterfall":
            root.get_waterfall()
            ctx.hit("parent_has_waterfall")
        elif op["op"] == "copy":
            root = root.copy()
    if not np.any(root.data):
        # give an empty root distinct pixels, so that normalisation is defined and shifts cannot hide
        root.data += F.marker_data(spec).astype(root.data.dtype)
    pool = [root]
    derived = {id(root): 0}
    nder = 0
    kinds = set()
    for op in sc["ops"]:
        ctx.op(op["op"])
        if op["op"] == "clock_jump":
            ctx.seams.clock.jump(op["delta"])
            ctx.hit("clock_jump")
            continue
        cands = [f for f in pool if f.fchans >= 2 and f.tchans >= 1]
        parent = cands[op["parent"] % len(cands)]
        if derived[id(parent)] > 0:
            ctx.hit("derived_of_derived")
        pdata = np.array(parent.data, copy=True)
        pfs = np.array(parent.fs, copy=True)
        pts = np.array(parent.ts, copy=True)
        pstate = F.state_digest(parent)
        n = parent.fchans
        kind = op["op"]
        kinds.add(kind)
        child = None
        try:
            if kind == "slice":
                l = min(int(op["a"] * n), n - 1)
                r = max(min(int(math.ceil(op["b"] * n)), n), l + 1)
                la, ra = l, r
                if op.get("neg"):
                    # the same bounds counted from the end of the band, as any Python slice allows
                    la = l - n
                    ra = (r - n) if (op["neg"] == "both" and r < n) else r
                    ctx.hit("slice_bounds_counted_from_the_end")
                child = stg.get_slice(parent, la, ra) if (l + r) % 2 else parent.get_slice(la, ra)
                ctx.event("slice", child.data, child.fs)
                ok = ctx.check(child.data.shape == (parent.tchans, r - l) and np.array_equal(child.data, pdata[:, l:r], equal_nan=True), "slice",
                               "C17/slice/data_not_columns_l_to_r", lambda: "l=%d r=%d of %d: shape %s" % (l, r, n, child.data.shape))
                ok &= ctx.check(_axis_ok(child.fs, pfs[l:r], pfs[-1]), "slice", "C17/slice/frequency_axis_shifted/%s" % (
                    "ascending" if parent.ascending else "descending"),
                    lambda: "fs[0] %r, parent fs[l] %r (l=%d r=%d)" % (child.fs[0], pfs[l], l, r))
                ok &= ctx.check(_axis_ok(child.ts, pts, pts[-1] if len(pts) else 1.0), "slice", "C17/slice/time_axis_changed", "")
                ok &= _common(ctx, "slice", parent, child, info)
            elif kind == "trial_grid":
                unit = parent.df / parent.dt
                done = 0
                for k in range(op["n"]):
                    eff = op["sign"] * (op["step"] * (k + 1) + 0.003) * unit
                    mo = int(np.round(abs(eff) * parent.tchans * parent.dt / parent.df))
                    if mo >= n - 1 or tie_class(eff, parent.tchans, parent.dt, parent.df) != "clear":
                        continue
                    ch = stg.dedrift(parent, drift_rate=eff)
                    done += 1
                    W = n - mo
                    if not ctx.check(ch.data.shape == (parent.tchans, W), "dedrift", "C17/dedrift/trimmed_width/in_trial_grid",
                                     lambda: "trial %d: width %d, want %d" % (k, ch.data.shape[1], W)):
                        return
                    for i in range(parent.tchans):
                        if tie_class(eff, i, parent.dt, parent.df) != "clear":
                            continue
                        off = int(np.round(abs(eff) * i * parent.dt / parent.df))
                        want = pdata[i, off:off + W] if eff >= 0 else pdata[i, n - off - W:n - off]
                        if not ctx.check(np.array_equal(ch.data[i], want, equal_nan=True), "dedrift", "C17/dedrift/row_shift/in_trial_grid",
                                         lambda: "trial %d row %d: not the parent's row shifted by %d channels" % (k, i, off)):
                            return
                if done > 64:
                    ctx.hit("more_than_64_distinct_rates_in_one_process")
                continue
            elif kind == "dedrift":
                unit = parent.df / parent.dt
                mode = op["mode"]
                if mode == "too_steep":
                    rate = op["sign"] * (n + 1) * parent.df / (parent.tchans * parent.dt)
                elif mode == "own" and signal_rate is not None:
                    rate = signal_rate[0]
                elif mode == "metadata" and "drift_rate" in parent.metadata:
                    rate = None
                    ctx.hit("dedrift_from_metadata")
                else:
                    rate = op["px"] * unit
                eff = parent.metadata["drift_rate"] if rate is None else rate
                max_off_x = abs(eff) * parent.tchans * parent.dt / parent.df
                tc = tie_class(eff, parent.tchans, parent.dt, parent.df)
                near = tc == "near"
                if tc == "exact":
                    ctx.hit("dedrift_exact_half_channel_tie")
                max_off = int(np.round(max_off_x))        # half to even
                raised = None
                try:
                    child = stg.dedrift(parent, drift_rate=rate) if rate is not None else stg.dedrift(parent)
                except ValueError as e:
                    raised = e
                must_raise = max_off >= n
                if near and abs(max_off - n) <= 1:
                    pass      # boundary tie: either outcome
                elif must_raise:
                    ctx.hit("dedrift_rejected_too_steep")
                    ok = ctx.check(raised is not None, "dedrift", "C17/dedrift/too_steep_rate_accepted",
                                   lambda: "rate %r leaves no channels (max offset %d of %d) but was accepted" % (eff, max_off, n))
                    continue
                else:
                    if not ctx.check(raised is None, "dedrift", "C17/dedrift/valid_rate_rejected",
                                     lambda: "rate %r (max offset %d of %d) raised %r" % (eff, max_off, n, raised)):
                        return
                if child is None:
                    continue
                if eff < 0:
                    ctx.hit("dedrift_negative")
                ctx.event("dedrift", child.data, child.fs)
                W = n - max_off
                if not ctx.check(child.data.shape == (parent.tchans, W) or near, "dedrift", "C17/dedrift/trimmed_width",
                                 lambda: "width %d, want %d - %d" % (child.data.shape[1], n, max_off)):
                    return
                W = child.data.shape[1]
                ok = True
                for i in range(parent.tchans):
                    x = abs(eff) * i * parent.dt / parent.df
                    tc = tie_class(eff, i, parent.dt, parent.df)
                    if tc == "near":
                        ctx.ties += 1
                        continue
                    if tc == "exact":
                        ctx.hit("dedrift_exact_half_channel_tie")
                    off = int(np.round(x))                # half to even, like the statement's round()
                    if eff >= 0:
                        want = pdata[i, off:off + W]
                    else:
                        want = pdata[i, n - off - W:n - off]
                    if not np.array_equal(child.data[i], want, equal_nan=True):
                        ok = ctx.check(False, "dedrift", "C17/dedrift/row_shift/%s_drift/%s" % ("positive" if eff >= 0 else "negative",
                                                                                             "row0" if i == 0 else "later_row"),
                                       "row %d: not the parent's row shifted by %d channels towards the start of the drift" % (i, off))
                        break
                want_fs = pfs[:W] if eff >= 0 else pfs[n - W:]
                ok &= ctx.check(_axis_ok(child.fs, want_fs, pfs[-1]), "dedrift", "C17/dedrift/frequency_axis/%s_drift/%s" % (
                    "positive" if eff >= 0 else "negative", "ascending" if parent.ascending else "descending"),
                    lambda: "row 0 must keep its frequencies: fs[0] %r, want %r" % (child.fs[0], want_fs[0]))
                ok &= _common(ctx, "dedrift", parent, child, info)
                # a constant-drift box signal de-drifted at its own rate sits in one column +-1
                if ok and mode == "own" and signal_rate is not None and parent is root and parent.tchans >= 2:
                    cols = np.argmax(child.data, axis=1)
                    # "onto a single column to within one channel": every row within one channel of the common column
                    peak_ok = np.all(child.data.max(axis=1) > sig_level / 2) and np.all(np.abs(cols - int(np.median(cols))) <= 1)
                    inband = True
                    f_end = signal_rate[1] + signal_rate[0] * parent.tchans * parent.dt
                    inband = (parent.fmin + 2 * parent.df < min(signal_rate[1], f_end)) and (max(signal_rate[1], f_end) < parent.fmax - 2 * parent.df)
                    if inband and np.all(child.data.max(axis=1) > sig_level / 2):
                        ctx.hit("dedrift_peak_checked")
                        ctx.check(peak_ok, "dedrift", "C17/dedrift/signal_not_in_one_column", lambda: "peak columns %r" % (cols,))
            elif kind in ("integrate", "spectrum", "timeseries"):
                if kind == "integrate":
                    axis, mode, normalize, as_frame = op["axis"], op["mode"], op["normalize"], op["as_frame"]
                    res = stg.integrate(parent, axis=axis, mode=mode, normalize=normalize, as_frame=as_frame)
                elif kind == "spectrum":
                    axis, mode, normalize, as_frame = "t", op["mode"], op["normalize"], True
                    res = stg.spectrum(parent, mode=mode, normalize=normalize)
                else:
                    axis, mode, normalize, as_frame = "f", op["mode"], op["normalize"], True
                    res = stg.timeseries(parent, mode=mode, normalize=normalize)
                over_f = axis in ("f", 1)
                x = pdata.astype(np.float64) if False else pdata
                red = (np.sum if mode[0] == "s" else np.mean)(pdata, axis=1 if over_f else 0)
                if normalize:
                    ctx.hit("normalised")
                    c = sigma_clip(red.reshape(-1, 1) if over_f else red.reshape(1, -1))
                    red = (red - np.mean(c)) / np.std(c)
                arr = np.asarray(res.data).ravel() if as_frame else np.asarray(res)
                ctx.event(kind, arr)
                scale = max(float(np.max(np.abs(red))) if red.size else 0.0, 1e-300)
                if not np.all(np.isfinite(red)):
                    # normalising a constant profile is 0/0: nothing the statement defines
                    continue
                ok = ctx.check(arr.shape == red.shape and np.all(np.abs(arr - red) <= 1e-9 * scale + 1e-300),
                               "integrate", "C17/integrate/%s_%s/values" % ("time_series" if over_f else "spectrum", "sum" if mode[0] == "s" else "mean"),
                               lambda: "shape %s want %s" % (arr.shape, red.shape))
                if as_frame:
                    child = res
                    if over_f:
                        ctx.hit("timeseries_frame")
                        ok &= ctx.check(isinstance(child, stg.TimeSeries) and child.data.shape == (parent.tchans, 1), "integrate",
                                        "C17/integrate/time_series/shape", lambda: "%s %s" % (type(child).__name__, child.data.shape))
                        ok &= ctx.check(_axis_ok(child.ts, pts, pts[-1] if pts[-1] else 1.0), "integrate", "C17/integrate/time_series/time_axis", "")
                        ok &= _common(ctx, "timeseries", parent, child, info, freq_scaled=True)
                    else:
                        ctx.hit("spectrum_frame")
                        ok &= ctx.check(isinstance(child, stg.Spectrum) and child.data.shape == (1, n), "integrate",
                                        "C17/integrate/spectrum/shape", lambda: "%s %s" % (type(child).__name__, child.data.shape))
                        ok &= ctx.check(_axis_ok(child.fs, pfs, pfs[-1]), "integrate", "C17/integrate/spectrum/frequency_axis/%s" % (
                            "ascending" if parent.ascending else "descending"), lambda: "fs[0] %r want %r" % (child.fs[0], pfs[0]))
                        ok &= _common(ctx, "spectrum", parent, child, info, time_scaled=True)
        except Exception as e:
            from ..worlds.raw import innermost_setigen_frame
            ctx.violation("derive", "C17/%s/raises:%s@%s" % (kind, type(e).__name__, innermost_setigen_frame(e)), repr(e))
            return
        # the parent is never modified by deriving from it (the attached Waterfall aside)
        ctx.check(F.state_digest(parent) == pstate, "parent", "C17/%s/parent_modified" % kind, "parent frame state changed by the derive op")
        if child is not None:
            if kind in ("slice", "dedrift") or (kind in ("integrate", "spectrum", "timeseries")):
                _isolation(ctx, kind, parent, child)
            pool.append(child)
            derived[id(child)] = derived[id(parent)] + 1
            nder += 1
        if ctx.violations and ctx.stop_on_violation:
            return
    ctx.nontrivial = nder >= 2
    cd = sc.get("consolidated_dedrift")
    if cd and root.tchans >= 2 and not (ctx.violations and ctx.stop_on_violation):
        # de-drifting a frame that came out of Cadence.consolidate() (time gaps between the observations): the statement
        # shifts row i by round(|d|*i*dt/df) whatever the frame's time axis says
        second = stg.Frame.from_data(root.df, root.dt, root.fch1, root.ascending, np.array(root.data[::-1], dtype=float) + 1.0,
                                     t_start=root.t_start + root.tchans * root.dt + cd["gap"] * root.dt, seed=3)
        first = stg.Frame.from_data(root.df, root.dt, root.fch1, root.ascending, np.array(root.data, dtype=float),
                                    t_start=root.t_start, seed=4)
        cons = stg.Cadence([first, second]).consolidate()
        n = cons.fchans
        rate = cd["px"] * cons.df / cons.dt
        max_x = abs(rate) * cons.tchans * cons.dt / cons.df
        if tie_class(rate, cons.tchans, cons.dt, cons.df) != "near" and int(np.round(max_x)) < n - 1:
            ctx.op("consolidated_dedrift")
            ctx.hit("dedrift_of_consolidated_frame_with_gaps")
            cdata = np.array(cons.data, copy=True)
            try:
                dd = stg.dedrift(cons, drift_rate=rate)
            except Exception as e:
                ctx.violation("dedrift", "C17/dedrift/consolidated_parent/raises:%s" % type(e).__name__, repr(e))
                dd = None
            if dd is not None:
                Wd = n - int(np.round(max_x))
                ok = dd.data.shape == (cons.tchans, Wd)
                for i in range(cons.tchans if ok else 0):
                    if tie_class(rate, i, cons.dt, cons.df) == "near":
                        continue
                    off = int(np.round(abs(rate) * i * cons.dt / cons.df))
                    want = cdata[i, off:off + Wd] if rate >= 0 else cdata[i, n - off - Wd:n - off]
                    if not np.array_equal(dd.data[i], want):
                        ok = False
                        break
                ctx.check(ok, "dedrift", "C17/dedrift/consolidated_parent/row_shift", "rows of a consolidated frame are not shifted by round(|d|*i*dt/df)")
    ctx.sim_time += root.tchans * root.dt
    ctx.fingerprint = [spec["route"], g["ascending"], sorted(o["op"] for o in sc["pre"]), sorted(kinds),
                       sorted({o.get("mode") for o in sc["ops"] if o["op"] == "dedrift"}, key=str),
                       max(derived.values()) > 1, any(o["op"] == "clock_jump" for o in sc["ops"])]
