"""C08 — polyphase filterbank equals its FIR+DFT definition, invariant to chunking.

STREAM world.  The schedule is the composition of each stream into admissible
chunks, cache on/off calls in between, resets, and the interleaving of calls on
several filterbank objects.  Oracle: RefPFB on the prefix consumed.
"""
import numpy as np

from ..models import voltage as mv
from ..seams import _REAL_DEFAULT_RNG

ID = "C08"
WORLD = "stream"
LEVEL = "exploration"
EST_RUN_S = 0.03
RULE = ("scenario = 1-3 filterbank objects (T, B, window) each bound to a seeded input stream, and a seeded "
        "interleaving of feed(chunk, cache=True) / feed(cache=False on unrelated data) / _reset_cache / "
        "get_pfb_voltages / linearity / complex probes; non-trivial = at least two cached feeds on one object "
        "compared with RefPFB; distinct = distinct abstract fingerprint (objects, T/B class, windows, input "
        "kinds, chunk-size classes, control ops present)")
COMPONENTS = {"real": ["setigen.voltage.polyphase_filterbank (PolyphaseFilterbank, pfb_frontend, get_pfb_window, "
                       "get_pfb_voltages)", "numpy.fft", "scipy.signal.firwin"],
              "stub": ["none needed: no clock, file or entropy is read on this path (entropy seam installed as tripwire)"]}
ASSUMPTIONS = ["scipy.signal.firwin is the documented window design (trusted)",
               "float comparison at 1e-10 of the largest attainable output magnitude"]
PROBES = ["long_chunks_after_a_first_chunk", "stream_dtype_widens_between_chunks", "object_copied_or_pickled_mid_stream", "one_shot_length_not_a_multiple_of_window", "long_single_call", "same_coefficient_count_other_split_alive", "chunk_single_window", "reset_midstream", "nocache_between_feeds", "interleaved_objects",
          "complex_input", "nonpow2_branches", "dtype_switch_after_reset", "noncontiguous_input", "rejected_call"]

WINDOWS = ["hamming", "hann", "boxcar", "blackman"]
KINDS = ["gauss", "ints", "impulse", "ramp", "complex"]
ALL_KINDS = KINDS + ["int8", "widening"]


def as_view(x, layout):
    """The same values handed over as a non-contiguous view (one polarisation of an interleaved buffer, or the
    real part of a complex array): 'arbitrary real or complex input' includes arrays that are not C-contiguous."""
    if layout == "stride2":
        buf = np.empty(2 * len(x), dtype=x.dtype)
        buf[0::2] = x
        buf[1::2] = 7
        return buf[0::2]
    if layout == "part" and not np.iscomplexobj(x):
        z = x.astype(float) + 1j * np.arange(len(x))
        return z.real
    return x


def make_input(kind, seed, n):
    rng = _REAL_DEFAULT_RNG([seed, 77])
    if kind == "gauss":
        return rng.standard_normal(n)
    if kind == "ints":
        return rng.integers(-128, 128, size=n).astype(float)
    if kind == "impulse":
        x = np.zeros(n)
        idx = rng.integers(0, n, size=max(1, n // 97))
        x[idx] = rng.integers(1, 9, size=len(idx))
        return x
    if kind == "ramp":
        return (np.arange(n) % 251) * 0.5 - 30.0
    if kind == "complex":
        return rng.standard_normal(n) + 1j * rng.standard_normal(n)
    if kind == "int8":
        return rng.integers(-128, 128, size=n).astype(np.int8)       # integer dtype, as read from a RAW file
    if kind == "widening":
        # one stream whose chunks arrive in ever wider dtypes: integers first, then floats, then complex values
        # (each chunk is handed over in the narrowest dtype that holds it, see _narrow)
        x = rng.integers(-100, 100, size=n).astype(complex)
        a, b = n // 3, 2 * n // 3
        x[a:] += 0.37 * rng.standard_normal(n - a)
        x[b:] += 1j * rng.standard_normal(n - b)
        return x
    raise ValueError(kind)


def _narrow(chunk):
    """The narrowest of int64 / float64 / complex128 that holds the chunk exactly."""
    if np.iscomplexobj(chunk) and not np.any(chunk.imag):
        chunk = chunk.real.copy()
    if not np.iscomplexobj(chunk) and np.all(chunk == np.round(chunk)) and chunk.dtype.kind == "f":
        return chunk.astype(np.int64)
    return chunk


def generate(rng, tier):
    npfb = rng.choice([1, 1, 2, 2, 3])
    pfbs = []
    for _ in range(npfb):
        T = rng.choice([1, 2, 2, 3, 4, 4, 5, 8])
        # ... including branch counts with a large prime factor (transform lengths an implementation might "round up")
        B = rng.choice([4, 8, 8, 16, 16, 32, 64, 6, 10, 12, 24, 26, 34, 14, 22, 38] + ([128, 256, 46, 58] if tier == "thorough" else []))
        kinds = ALL_KINDS if rng.random() < 0.35 else KINDS[:4]
        pfbs.append({"T": T, "B": B, "window": rng.choice(WINDOWS), "kind": rng.choice(kinds),
                     "seed": rng.randrange(1 << 30)})
    ops = []
    nops = rng.randint(3, 14)
    for _ in range(nops):
        p = rng.randrange(npfb)
        r = rng.random()
        if r < 0.62:
            k = rng.choice([1, 1, 2, 2, 3, 4, 5, 7, 9])
            ops.append({"op": "feed", "p": p, "k": k, "layout": rng.choice(["c", "c", "c", "stride2", "part"])})
        elif r < 0.74:
            ops.append({"op": "nocache", "p": p, "k": rng.choice([1, 2, 3, 4]), "seed": rng.randrange(1 << 30),
                        "kind": rng.choice(KINDS[:4]), "layout": rng.choice(["c", "c", "stride2", "part"])})
            if rng.random() < 0.3:
                ops[-1]["ragged"] = rng.choice([0.01, 0.3, 0.5, 0.99])
                ops[-1]["k"] = max(ops[-1]["k"], 2)
        elif r < 0.765:
            # a call the filterbank must reject (no array at all); the stream must carry on as if it had not happened
            ops.append({"op": "reject", "p": p, "arg": rng.choice(["none", "scalar"])})
        elif r < 0.775:
            ops.append({"op": "snapshot", "p": p, "how": rng.choice(["deepcopy", "copy", "pickle"])})
        elif r < 0.79:
            ops.append({"op": "reset", "p": p})
        elif r < 0.82:
            # the same object starts a new stream of another kind (other dtype) after a reset
            ops.append({"op": "switch", "p": p, "kind": rng.choice(ALL_KINDS), "seed": rng.randrange(1 << 30)})
        elif r < 0.88:
            ops.append({"op": "gpv", "p": p, "k": rng.choice([2, 3, 4]), "seed": rng.randrange(1 << 30)})
        elif r < 0.94:
            ops.append({"op": "linear", "p": p, "k": rng.choice([2, 3]), "seed": rng.randrange(1 << 30),
                        "a": rng.choice([2.0, -1.5, 0.25]), "b": rng.choice([1.0, 3.0, -0.5])})
        else:
            ops.append({"op": "complex", "p": p, "k": rng.choice([2, 3]), "seed": rng.randrange(1 << 30)})
    if npfb >= 2 and rng.random() < 0.3:
        # a near twin alive in the same process: same number of coefficients and window, other taps/branches split
        T0, B0 = pfbs[0]["T"], pfbs[0]["B"]
        splits = [(t, T0 * B0 // t) for t in (1, 2, 3, 4, 5, 8) if (T0 * B0) % t == 0 and t != T0 and T0 * B0 // t >= 4
                  and (T0 * B0 // t) % 2 == 0]
        if splits:
            pfbs[1]["T"], pfbs[1]["B"] = rng.choice(splits)
            pfbs[1]["window"] = pfbs[0]["window"]
    if rng.random() < (0.025 if tier == "quick" else 0.05):
        # one very long call: batch sizes inside the implementation are invisible to short streams
        ops.append({"op": "long", "p": rng.randrange(npfb), "log2n": rng.uniform(15.0, 20.4), "seed": rng.randrange(1 << 30),
                    # the twin stream arrives in moderate chunks - or in two or three very long ones (fast paths for long
                    # chunks that follow another chunk)
                    "chunk_windows": rng.choice([16, 64, 100, "half", "third"])})
    return {"seams": {"entropy_salt": rng.randrange(1 << 20), "scratch": "c08"}, "pfbs": pfbs, "ops": ops}


def simplify(sc):
    # smaller T / B, shorter chunks, simpler inputs, fewer objects
    for i, p in enumerate(sc["pfbs"]):
        for key, vals in (("T", [1, 2]), ("B", [4, 8])):
            for v in vals:
                if p[key] > v:
                    c = _cp(sc)
                    c["pfbs"][i][key] = v
                    yield c
        if p["window"] != "hamming":
            c = _cp(sc)
            c["pfbs"][i]["window"] = "hamming"
            yield c
        if p["kind"] != "ramp":
            c = _cp(sc)
            c["pfbs"][i]["kind"] = "ramp"
            yield c
    for j, op in enumerate(sc["ops"]):
        if op.get("k", 1) > 1:
            c = _cp(sc)
            c["ops"][j]["k"] = op["k"] - 1
            yield c
        if op.get("p", 0) > 0:
            c = _cp(sc)
            c["ops"][j]["p"] = 0
            yield c
    if len(sc["pfbs"]) > 1:
        c = _cp(sc)
        c["pfbs"] = c["pfbs"][:-1]
        for op in c["ops"]:
            op["p"] = op.get("p", 0) % len(c["pfbs"])
        yield c


def _cp(sc):
    import copy
    return copy.deepcopy(sc)


def _first_bad(got, want, tol):
    d = np.abs(got - want)
    bad = np.argwhere(d > tol)
    return None if bad.size == 0 else tuple(int(v) for v in bad[0])


def execute(sc, ctx):
    import setigen.voltage.polyphase_filterbank as pf
    objs = []
    for spec in sc["pfbs"]:
        T, B = spec["T"], spec["B"]
        o = pf.PolyphaseFilterbank(num_taps=T, num_branches=B, window_fn=spec["window"])
        h = mv.ref_window(T, B, spec["window"])
        total = sum(op.get("k", 0) for op in sc["ops"] if op["op"] == "feed") + 1
        x = make_input(spec["kind"], spec["seed"], total * T * B)
        objs.append({"o": o, "T": T, "B": B, "h": h, "x": x, "pos": 0, "epoch": 0, "feeds": 0,
                     "kind": spec["kind"], "last_was_nocache": False})
        if B & (B - 1):
            ctx.hit("nonpow2_branches")
        # the window itself is part of the definition
        ctx.check(np.allclose(np.asarray(o.window), h, rtol=1e-12, atol=1e-12), "window",
                  "C08/window/differs_from_documented_design", "window coefficients differ")
    if len({(S["T"] * S["B"], sp["window"]) for S, sp in zip(objs, sc["pfbs"])}) < len({(S["T"], S["B"], sp["window"])
                                                                                           for S, sp in zip(objs, sc["pfbs"])}):
        ctx.hit("same_coefficient_count_other_split_alive")
    touched = set()
    last_p = None
    for op in sc["ops"]:
        p = op.get("p", 0) % len(objs)
        S = objs[p]
        T, B, h, o = S["T"], S["B"], S["h"], S["o"]
        ctx.op(op["op"])
        if last_p is not None and last_p != p:
            ctx.hit("interleaved_objects")
        last_p = p
        if op["op"] == "feed":
            n = op["k"] * T * B
            chunk = S["x"][S["pos"]:S["pos"] + n]
            if len(chunk) < n:
                continue
            first = (S["pos"] == S["epoch"])
            if op["k"] == 1:
                ctx.hit("chunk_single_window")
            if S["last_was_nocache"]:
                ctx.hit("nocache_between_feeds")
            S["last_was_nocache"] = False
            if np.iscomplexobj(chunk):
                ctx.hit("complex_input")
            with np.errstate(all="ignore"):
                import warnings
                with warnings.catch_warnings():
                    warnings.simplefilter("ignore")
                    arg = as_view(_narrow(chunk.copy()) if S["kind"] == "widening" else chunk.copy(), op.get("layout", "c"))
                    if S["kind"] == "widening":
                        ctx.hit("stream_dtype_widens_between_chunks")
                    if not arg.flags["C_CONTIGUOUS"]:
                        ctx.hit("noncontiguous_input")
                    got = np.asarray(o.channelize(arg, cache=True))
            ctx.event("feed", p, got)
            S["pos"] += n
            m1 = (S["pos"] - S["epoch"]) // B - T
            m0 = m1 - (n // B - (T if first else 0))
            m0 = max(m0, 0)
            want = mv.ref_pfb(S["x"][S["epoch"]:S["pos"]], T, B, h, m0, m1)
            cls = "first" if first else "later"
            if not ctx.check(got.shape == want.shape, "count",
                             "C08/count/%s_chunk/spectra_%s" % (cls, "missing" if got.shape[0] < want.shape[0] else
                                                                "extra" if got.shape[0] > want.shape[0] else "shape"),
                             lambda: "got %s want %s (T=%d B=%d k=%d)" % (got.shape, want.shape, T, B, op["k"])):
                if ctx.stop_on_violation:
                    return
                continue
            tol = mv.pfb_tol(S["x"], h, T, B)
            bad = _first_bad(got, want, tol)
            if bad is not None:
                where = "seam" if (not first and bad[0] < T) else "interior"
                part = ""
                if np.iscomplexobj(chunk):
                    part = "/complex_input"
                ctx.violation("value", "C08/value/%s_chunk/%s%s" % (cls, where, part),
                              "spectrum %d chan %d: got %r want %r tol %.3g (T=%d B=%d)" % (
                                  bad[0], bad[1], got[bad], want[bad], tol, T, B))
                if ctx.stop_on_violation:
                    return
            S["feeds"] += 1
            if S["feeds"] >= 2:
                ctx.nontrivial = True
            touched.add(p)
        elif op["op"] == "nocache":
            extra = int(op.get("ragged", 0) * (T * B - 1)) if op.get("ragged") else 0
            y = make_input(op["kind"], op["seed"], op["k"] * T * B + extra)
            cache_before = None if o.cache is None else np.array(o.cache, copy=True)
            got = np.asarray(o.channelize(as_view(y.copy(), op.get("layout", "c")), cache=False))
            ctx.event("nocache", p, got)
            want = mv.ref_pfb(y, T, B, h)
            if extra:
                # a one-shot sequence whose length is not a whole number of windows: spectrum n still starts at
                # sample n*num_branches; how many spectra the tail yields is not stated, the whole windows' are due
                ctx.hit("one_shot_length_not_a_multiple_of_window")
                whole = (op["k"] - 1) * T
                if got.ndim == 2 and whole <= got.shape[0] <= want.shape[0]:
                    want = want[:got.shape[0]]
            S["last_was_nocache"] = True
            if ctx.check(got.shape == want.shape, "count", "C08/count/nocache",
                         lambda: "got %s want %s" % (got.shape, want.shape)):
                bad = _first_bad(got, want, mv.pfb_tol(y, h, T, B))
                ctx.check(bad is None, "value", "C08/value/nocache", lambda: "at %s" % (bad,))
            same = (cache_before is None and o.cache is None) or (
                cache_before is not None and o.cache is not None and np.array_equal(cache_before, o.cache))
            ctx.check(same, "cache", "C08/nocache_call_disturbs_stream", "cache changed by cache=False call")
        elif op["op"] == "long":
            k = max(int(2 ** op["log2n"]) // (T * B), T + 2)
            y = make_input("gauss", op["seed"], k * T * B)
            got = np.asarray(o.channelize(y.copy(), cache=False))
            ctx.event("long", p, got.shape, got[-1])
            ctx.hit("long_single_call")
            nrows = len(y) // B - T
            if not ctx.check(got.shape == (nrows, B // 2), "count", "C08/count/long_call", lambda: "got %s want (%d, %d)" % (
                    got.shape, nrows, B // 2)):
                return
            tol = mv.pfb_tol(y, h, T, B)
            want = mv.ref_pfb(y, T, B, h)
            bad = _first_bad(got, want, tol)
            if not ctx.check(bad is None, "value", "C08/value/long_call/%s" % (
                    "all_zero_rows" if bad is not None and not np.any(got[bad[0]]) else "rows"),
                    lambda: "spectrum %d of %d (T=%d B=%d, %d samples)" % (bad[0], nrows, T, B, len(y))):
                return
            # ... and the same stream in moderate chunks through a fresh object gives the same spectra
            o2 = pf.PolyphaseFilterbank(num_taps=T, num_branches=B, window_fn=sc["pfbs"][p]["window"])
            if op["chunk_windows"] in ("half", "third"):
                step = -(-k // (2 if op["chunk_windows"] == "half" else 3)) * T * B
                ctx.hit("long_chunks_after_a_first_chunk")
            else:
                step = op["chunk_windows"] * T * B
            parts = [np.asarray(o2.channelize(y[a:a + step].copy(), cache=True)) for a in range(0, len(y), step)]
            cat = np.concatenate(parts)
            if ctx.check(cat.shape == got.shape, "count", "C08/count/long_call_vs_chunked", lambda: "%s vs %s" % (cat.shape, got.shape)):
                bad = _first_bad(got, cat, 2 * tol)
                ctx.check(bad is None, "value", "C08/value/long_call_differs_from_chunked", lambda: "at %s" % (bad,))
            ctx.nontrivial = True
        elif op["op"] == "snapshot":
            # somebody looks at the object in mid-stream through the copy / pickle protocol (a checkpoint, a template
            # handed to a backend, which deep-copies it): the stream being channelised must not notice
            import copy as _copy
            import pickle as _pickle
            if op["how"] == "deepcopy":
                _copy.deepcopy(o)
            elif op["how"] == "copy":
                _copy.copy(o)
            else:
                _pickle.loads(_pickle.dumps(o))
            ctx.hit("object_copied_or_pickled_mid_stream")
            ctx.event("snapshot", p, op["how"])
        elif op["op"] == "reject":
            try:
                o.channelize(None if op["arg"] == "none" else 5.0, cache=True)
                raised = False
            except Exception:
                raised = True
            ctx.event("reject", p, raised)
            if raised:
                ctx.fired("rejected_call")
            else:
                break        # accepted: outside the statement, stop judging this run
        elif op["op"] == "switch":
            o._reset_cache()
            total = sum(q.get("k", 0) for q in sc["ops"] if q["op"] == "feed") + 1
            S["x"] = make_input(op["kind"], op["seed"], total * T * B)
            S["pos"] = 0
            S["epoch"] = 0
            if S["kind"] != op["kind"]:
                ctx.hit("dtype_switch_after_reset")
            S["kind"] = op["kind"]
            ctx.event("switch", p)
        elif op["op"] == "reset":
            o._reset_cache()
            S["epoch"] = S["pos"]
            if S["pos"] > 0:
                ctx.hit("reset_midstream")
            ctx.event("reset", p)
        elif op["op"] == "gpv":
            y = make_input("gauss", op["seed"], op["k"] * T * B)
            got = np.asarray(pf.get_pfb_voltages(y.copy(), T, B, sc["pfbs"][p]["window"]))
            ctx.event("gpv", p, got)
            want = mv.ref_pfb(y, T, B, h)
            ok = got.ndim == 2 and got.shape[0] == want.shape[0] and got.shape[1] in (B // 2, B // 2 + 1)
            if ctx.check(ok, "count", "C08/count/get_pfb_voltages", lambda: "got %s want %s" % (got.shape, want.shape)):
                bad = _first_bad(got[:, :B // 2], want, mv.pfb_tol(y, h, T, B))
                ctx.check(bad is None, "value", "C08/value/get_pfb_voltages", lambda: "at %s" % (bad,))
        elif op["op"] == "linear":
            x1 = make_input("gauss", op["seed"], op["k"] * T * B)
            x2 = make_input("ints", op["seed"] + 1, op["k"] * T * B)
            a, b = op["a"], op["b"]
            g12 = np.asarray(o.channelize(a * x1 + b * x2, cache=False))
            g1 = np.asarray(o.channelize(x1, cache=False))
            g2 = np.asarray(o.channelize(x2, cache=False))
            ctx.event("linear", p, g12)
            tol = 4 * mv.pfb_tol(np.abs(a) * np.abs(x1) + np.abs(b) * np.abs(x2), h, T, B)
            ctx.check(g12.shape == g1.shape and np.all(np.abs(g12 - (a * g1 + b * g2)) <= tol), "linear",
                      "C08/linearity", "pfb(a x + b y) != a pfb(x) + b pfb(y)")
        elif op["op"] == "complex":
            re = make_input("gauss", op["seed"], op["k"] * T * B)
            im = make_input("ints", op["seed"] + 5, op["k"] * T * B)
            import warnings
            with warnings.catch_warnings():
                warnings.simplefilter("ignore")
                g = np.asarray(o.channelize(re + 1j * im, cache=False))
            gr = np.asarray(o.channelize(re, cache=False))
            gi = np.asarray(o.channelize(im, cache=False))
            ctx.event("complex", p, g)
            ctx.hit("complex_input")
            tol = 4 * mv.pfb_tol(np.abs(re) + np.abs(im), h, T, B)
            ctx.check(g.shape == gr.shape and np.all(np.abs(g - (gr + 1j * gi)) <= tol), "complex",
                      "C08/value/complex_input_not_re_plus_i_im",
                      "channelize(re + i im) != channelize(re) + i channelize(im)")
            ctx.nontrivial = True
        if ctx.violations and ctx.stop_on_violation:
            return
    ctx.sim_time += sum(S["pos"] for S in objs) * 1e-6
    chunk_classes = sorted({min(op.get("k", 0), 4) for op in sc["ops"] if op["op"] == "feed"})
    ctx.fingerprint = [len(objs), sorted({(min(s["T"], 4), "p2" if not s["B"] & (s["B"] - 1) else "np2")
                                          for s in sc["pfbs"]}),
                       sorted({s["window"] for s in sc["pfbs"]}), sorted({s["kind"] for s in sc["pfbs"]}),
                       chunk_classes, sorted({op["op"] for op in sc["ops"]})]
