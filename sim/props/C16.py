"""C16 — cadence injection is time-continuous and leaves frame time axes intact.

CADENCE world, level fault_enumeration: the only property that names fault
sequences explicitly.  Per generated scenario the fault points are *enumerated*,
not sampled: for every user callable every invocation index at which it raises
("raises on the k-th frame for every k"), and every line event inside the
per-frame Frame.add_signal (and the callables beneath it) at which an
asynchronous interrupt is delivered.  The lines of the cadence loop that perform
the restore itself are not fault points (no code survives an asynchronous
exception delivered on its own clean-up statement).
"""
import copy
import math

import numpy as np

from ..core import InjectedCallbackError, InjectedInterrupt

ID = "C16"
WORLD = "cadence"
LEVEL = "fault_enumeration"
EST_RUN_S = 0.25
RULE = ("scenario = cadence of 1-6 frames (start times 0 / 1000.5 / 1.7e9 s, gaps 0-300 s, equal or different tchans, plain or "
        "ordered, injected whole / by slice / by label), a signal (path and time profile callable / array / scalar incl. "
        "seeded RFI path, frequency profile, bandpass), all option combinations (sub-sample integration of path / time / "
        "frequency, Doppler smearing, bounding range), 1-2 repeated injections; enumerated per scenario: every invocation "
        "index of every callable raising, and every line event inside the per-frame injection interrupted; oracle: nominal "
        "delta per frame == single-frame injection on a pristine twin with callables evaluated at t + (t_start_j - t_start_0); "
        "after the call and after every fault: all time axes as before, frames after the failing one untouched, frames "
        "before it complete; overwrite_times spacing; consolidation; non-trivial = >= 2 frames with a time-dependent "
        "callable; distinct = abstract fingerprint")
COMPONENTS = {"real": ["setigen.cadence.Cadence.add_signal / overwrite_times / consolidate / slew_times",
                       "setigen.frame.Frame.add_signal", "setigen.funcs paths / profiles"],
              "stub": ["user callables wrapped to raise on the k-th invocation", "sys.settrace interrupt injector",
                       "SimClock (frame construction)"]}
ASSUMPTIONS = ["box frequency profiles are not combined with sub-sample integration (knife-edge pixels)",
               "an interrupt delivered on the cadence loop's own restore statement is out of scope",
               "the failing frame's own data is not judged after a fault"]
PROBES = ["cadence_list_changed_between_injections", "overwrite_times_called_after_construction", "consolidated_one_frame_cadence", "options_by_position", "frame_with_own_time_origin", "callback_raised_on_frame_k>0", "interrupt_inside_later_frame", "integrate_path", "integrate_t_profile",
          "integrate_f_profile", "doppler_smearing", "slice_subset", "label_subset", "repeated_injection", "gaps_between_frames",
          "array_path", "bounding_range", "stateful_rfi_path", "noncontiguous_subset", "parent_built_with_t_overwrite", "second_injection_through_other_selection"]
MAX_LINE_POINTS = 1500


def generate(rng, tier):
    nfr = rng.choice([1, 2, 2, 3, 3, 4, 6])
    # SCALE: a long observing session (block-wise or bulk paths that only engage beyond some number of frames)
    big = rng.random() < (0.06 if tier == "quick" else 0.12)
    if big:
        nfr = rng.choice([33, 40, 64, 70])
    same_t = rng.random() < 0.6
    geom = {"fchans": rng.choice([16, 24, 32, 48]), "df": rng.choice([1.0, 2.7939677238464355, 0.5]),
            "dt": rng.choice([1.0, 18.253611008, 2.5]), "fch1": rng.choice([6e9, 1.42e9, 8.421e9]),
            "ascending": rng.random() < 0.5}
    tch = rng.choice([2, 3, 4, 6])
    # SCALE: long frames - thousands of spectra each, so that sub-sample integration grids pass 2**16 points
    long_frames = (not big) and rng.random() < (0.05 if tier == "quick" else 0.1)
    if long_frames:
        tch = rng.choice([6554, 8192, 7001, 13108])
        same_t = True
        nfr = rng.choice([2, 3])
        geom["fchans"] = rng.choice([16, 24])
    t0 = rng.choice([0.0, 1000.5, 1.7e9, 59000.25])
    frames = []
    t = t0
    for i in range(nfr):
        tc = tch if same_t else rng.choice([2, 3, 4, 5])
        frames.append({"tchans": tc, "t_start": t, "noise": rng.random() < 0.4, "seed": rng.randrange(1 << 30)})
        if rng.random() < 0.12:
            # a frame whose own time axis does not start at 0 (as consolidated frames' axes do not; a user may assign one)
            frames[-1]["ts_origin"] = rng.choice([100.0, 0.5, 1e6])
        t = t + tc * geom["dt"] + rng.choice([0.0, 0.0, 10.0, 300.25, 7.0])
    if rng.random() < 0.1 and nfr > 1:
        frames[0], frames[-1] = frames[-1], frames[0]           # not chronological
    total = max(f["t_start"] + f["tchans"] * geom["dt"] for f in frames) - min(f["t_start"] for f in frames)
    span = geom["fchans"] * geom["df"]
    pk = rng.choice(["constant", "constant", "constant", "squared", "sine", "rfi", "lambda", "scalar"] + (["array"] if same_t else []))
    drift = rng.choice([0.0, 0.6, -0.6, 0.3]) * span / max(total, 1e-9)
    path = {"kind": pk, "idx": rng.choice([0.25, 0.5, 0.7]), "drift": drift, "period": rng.choice([total / 3 + 1, 50.0]),
            "amp": rng.choice([1.0, 3.0]) * geom["df"], "spread": rng.choice([1.0, 4.0]) * geom["df"], "seed": rng.randrange(1 << 30),
            "rfi_type": rng.choice(["stationary", "random_walk"])}
    if long_frames and drift == 0.0:
        path["drift"] = drift = 0.45 * span / max(total, 1e-9)
    tk = rng.choice(["constant", "sine", "ramp", "scalar"] + (["array"] if same_t else []))
    tprof = {"kind": tk, "level": rng.choice([1.0, 5.0]), "period": rng.choice([total / 2 + 1, 33.0]), "slope": 1.0 / max(total, 1.0)}
    integ_any = rng.random() < 0.5 or long_frames
    opts = {"integrate_path": integ_any and rng.random() < 0.5, "integrate_t_profile": integ_any and rng.random() < 0.5,
            "integrate_f_profile": integ_any and rng.random() < 0.4, "doppler_smearing": rng.random() < 0.25,
            "t_subsamples": rng.choice([2, 3, 10]), "f_subsamples": rng.choice([2, 4]), "smearing_subsamples": rng.choice([1, 2, 5])}
    if pk == "array" and opts["doppler_smearing"]:
        opts["doppler_smearing"] = False
    if long_frames:
        opts["t_subsamples"] = 10
        if not (opts["integrate_path"] or opts["integrate_t_profile"]):
            opts[rng.choice(["integrate_path", "integrate_t_profile"])] = True
    fkinds = ["gaussian", "sinc2", "lorentzian", "gaussian"]
    if not (opts["integrate_path"] or opts["integrate_t_profile"] or opts["integrate_f_profile"] or opts["doppler_smearing"]):
        fkinds.append("box")
    fprof = {"kind": rng.choice(fkinds), "width": rng.choice([1.5, 3.0, 6.0]) * geom["df"]}
    bp = {"kind": rng.choice(["none", "none", "constant", "slope", "scalar"])}
    bounding = None
    if rng.random() < 0.2:
        bounding = [rng.choice([0.1, 0.3]), rng.choice([0.6, 0.9])]
    ordered = rng.random() < 0.3 and not big
    sel = rng.choice(["all", "all", "all", "slice", "label" if ordered else "slice", "stride", "index"])
    if big:
        sel = rng.choice(["all", "all", "slice"])
    return {"seams": {"clock_origin": 1.7e9, "clock_jitter_seed": rng.randrange(1 << 20), "entropy_salt": rng.randrange(1 << 20),
                      "scratch": "c16"},
            "geom": geom, "frames": frames, "ordered": ordered, "order": rng.choice(["ABACAD", "ABABAB", "AABBCC"]),
            "select": {"kind": sel, "a": rng.choice([0, 1]), "b": rng.choice([None, -1, 3]), "label": rng.choice(["A", "B"]),
                       "idx": [rng.randrange(6) for _ in range(rng.choice([1, 2, 3]))]},
            "parent_overwrite": rng.random() < 0.3,
            "select2": rng.choice([None, None, "all", "slice", "stride", "index", "label" if ordered else "slice"]),
            "path": path, "t": tprof, "f": fprof, "bp": bp, "opts": opts, "bounding": bounding,
            "repeats": rng.choice([1, 1, 2]), "t_slew": rng.choice([0.0, 10.0, 300.25]), "ops": [],
            "positional": rng.choice([0, 0, 0, 2, 3, 5, 8]),
            "ow_form": rng.choice(["ctor", "ctor", "append", "grow", "reassign"]),
            "mutate_between": rng.choice([None, None, None, "setitem", "plain_setitem", "insert0", "insert_mid", "del0"])}


def simplify(sc):
    if len(sc["frames"]) > 1:
        for drop in range(len(sc["frames"])):
            c = copy.deepcopy(sc)
            del c["frames"][drop]
            yield c
    for k in ("integrate_path", "integrate_t_profile", "integrate_f_profile", "doppler_smearing"):
        if sc["opts"][k]:
            c = copy.deepcopy(sc)
            c["opts"][k] = False
            yield c
    if sc["bounding"]:
        c = copy.deepcopy(sc)
        c["bounding"] = None
        yield c
    if sc["repeats"] > 1:
        c = copy.deepcopy(sc)
        c["repeats"] = 1
        yield c
    if sc["select"]["kind"] != "all":
        c = copy.deepcopy(sc)
        c["select"]["kind"] = "all"
        yield c
    if sc["ordered"]:
        c = copy.deepcopy(sc)
        c["ordered"] = False
        if c["select"]["kind"] == "label":
            c["select"]["kind"] = "all"
        yield c
    for key, v in (("path", "constant"), ("t", "constant"), ("f", "gaussian"), ("bp", "none")):
        if sc[key]["kind"] != v:
            c = copy.deepcopy(sc)
            c[key]["kind"] = v
            yield c
    for i, f in enumerate(sc["frames"]):
        if f["noise"]:
            c = copy.deepcopy(sc)
            c["frames"][i]["noise"] = False
            yield c
        if f["tchans"] > 2 and sc["path"]["kind"] != "array" and sc["t"]["kind"] != "array":
            c = copy.deepcopy(sc)
            c["frames"][i]["tchans"] = 2
            yield c
    if sc["geom"]["fchans"] > 16:
        c = copy.deepcopy(sc)
        c["geom"]["fchans"] = 16
        yield c


# ---------------------------------------------------------------------------

class Counted:
    """Wraps a user callable: counts invocations, raises on the k-th."""

    def __init__(self, fn, name, box):
        self.fn, self.name, self.box = fn, name, box

    def __call__(self, *a):
        b = self.box
        b["counts"][self.name] = b["counts"].get(self.name, 0) + 1
        if b.get("fail") == (self.name, b["counts"][self.name]):
            b["fired"] = True
            raise InjectedCallbackError("%s invocation %d" % (self.name, b["counts"][self.name]))
        return self.fn(*a)


def make_components(sc, tchans, fmin):
    """Fresh component objects from the spec -> (path, t_profile, f_profile, bp_profile, time_dependent)."""
    import setigen as stg
    g = sc["geom"]
    p, t, f, bp = sc["path"], sc["t"], sc["f"], sc["bp"]
    f0 = fmin + p["idx"] * g["fchans"] * g["df"]
    k = p["kind"]
    timedep = False
    if k == "constant":
        path = stg.constant_path(f_start=f0, drift_rate=p["drift"])
        timedep = p["drift"] != 0
    elif k == "squared":
        path = stg.squared_path(f_start=f0, drift_rate=p["drift"] * 1e-3)
        timedep = p["drift"] != 0
    elif k == "sine":
        path = stg.sine_path(f_start=f0, drift_rate=p["drift"], period=p["period"], amplitude=p["amp"])
        timedep = True
    elif k == "rfi":
        path = stg.simple_rfi_path(f_start=f0, drift_rate=p["drift"], spread=p["spread"], spread_type="uniform",
                                   rfi_type=p["rfi_type"], seed=p["seed"])
        timedep = p["drift"] != 0
    elif k == "lambda":
        d = p["drift"]
        path = (lambda tt: f0 + d * tt + 0 * tt)
        timedep = d != 0
    elif k == "scalar":
        path = float(f0)
    else:
        n = tchans + (1 if sc["opts"]["doppler_smearing"] else 0)
        path = f0 + p["drift"] * g["dt"] * np.arange(n)
    k = t["kind"]
    if k == "constant":
        tp = stg.constant_t_profile(level=t["level"])
    elif k == "sine":
        tp = stg.sine_t_profile(period=t["period"], phase=0.3, amplitude=0.5 * t["level"], level=t["level"])
        timedep = True
    elif k == "ramp":
        lv, sl = t["level"], t["slope"]
        tp = (lambda tt: lv * (1.0 + sl * np.asarray(tt, dtype=float)))
        timedep = True
    elif k == "scalar":
        tp = float(t["level"])
    else:
        tp = t["level"] * (1.0 + 0.25 * np.arange(tchans))
    fk = f["kind"]
    fp = {"gaussian": stg.gaussian_f_profile, "box": stg.box_f_profile, "sinc2": stg.sinc2_f_profile,
          "lorentzian": stg.lorentzian_f_profile}[fk](f["width"])
    bk = bp["kind"]
    if bk == "none":
        bpp = None
    elif bk == "constant":
        bpp = stg.constant_bp_profile(level=0.75)
    elif bk == "slope":
        span = g["fchans"] * g["df"]
        bpp = (lambda ff: 0.5 + 0.5 * (np.asarray(ff) - fmin) / span)
    else:
        bpp = 0.5
    return path, tp, fp, bpp, timedep


def build_frames(sc):
    import setigen as stg
    g = sc["geom"]
    frames = []
    for spec in sc["frames"]:
        fr = stg.Frame(fchans=g["fchans"], tchans=spec["tchans"], df=g["df"], dt=g["dt"], fch1=g["fch1"],
                       ascending=g["ascending"], t_start=spec["t_start"], seed=spec["seed"])
        if spec["noise"]:
            fr.add_noise(x_mean=10, x_std=1, noise_type="gaussian")
        if spec.get("ts_origin"):
            fr.ts = fr.ts + spec["ts_origin"]
        frames.append(fr)
    return frames


def kwargs_of(sc, fmin):
    g = sc["geom"]
    kw = dict(sc["opts"])
    if sc["bounding"]:
        span = g["fchans"] * g["df"]
        kw["bounding_f_range"] = (fmin + sc["bounding"][0] * span, fmin + sc["bounding"][1] * span)
    return kw


def execute(sc, ctx):
    import setigen as stg
    g = sc["geom"]
    opts = sc["opts"]
    for k in ("integrate_path", "integrate_t_profile", "integrate_f_profile", "doppler_smearing"):
        if opts[k]:
            ctx.hit(k)
    if sc["bounding"]:
        ctx.hit("bounding_range")
    frames = build_frames(sc)
    fmin = frames[0].fmin
    pkw = {"t_slew": sc["t_slew"], "t_overwrite": True} if sc.get("parent_overwrite") else {}
    if sc["ordered"]:
        full = stg.OrderedCadence(frames[:6], order=sc["order"], **pkw)
    else:
        full = stg.Cadence(frames, **pkw)
    if pkw:
        ctx.hit("parent_built_with_t_overwrite")
    sel = sc["select"]
    starts_before = [f.t_start for f in full]
    if sel["kind"] == "slice":
        cad = full[sel["a"]:sel["b"]]
        ctx.hit("slice_subset")
    elif sel["kind"] == "stride":
        cad = full[sel["a"]::2]
        ctx.hit("noncontiguous_subset")
    elif sel["kind"] == "index":
        cad = full[sorted({i % len(full) for i in sel.get("idx", [0])})]
        ctx.hit("noncontiguous_subset")
    elif sel["kind"] == "label" and sc["ordered"]:
        cad = full.by_label(sel["label"])
        ctx.hit("label_subset")
    else:
        cad = full
    # selecting frames is not an operation on their times: the subset holds the same frame objects
    if not ctx.check([f.t_start for f in full] == starts_before, "select", "C16/select/subset_selection_moved_start_times/%s" % sel["kind"],
                     lambda: "start times before %r, after taking the subset %r" % (starts_before, [f.t_start for f in full])):
        return
    if pkw and len(full) > 1:
        st0 = np.asarray(full.slew_times)
        tol0 = np.array([4 * math.ulp(max(abs(f.t_start), 1.0)) for f in list(full)[1:]])
        if not ctx.check(np.all(np.abs(st0 - sc["t_slew"]) <= tol0), "slew", "C16/overwrite_times/slew_spacing_lost_after_selection",
                         lambda: "slew_times %r, t_slew %r" % (st0, sc["t_slew"])):
            return
    def select(kind):
        if kind == "slice":
            return full[sel["a"]:sel["b"]]
        if kind == "stride":
            return full[sel["a"]::2]
        if kind == "index":
            return full[sorted({i % len(full) for i in sel.get("idx", [0])})]
        if kind == "label" and sc["ordered"]:
            return full.by_label(sel["label"])
        return full
    cad2 = None
    if sc.get("select2") and sc["repeats"] > 1:
        cad2 = select(sc["select2"])
        if len(cad2) == 0 or [id(f) for f in cad2] == [id(f) for f in cad]:
            cad2 = None
    members = list(cad)
    all_frames = list(full)
    if len(members) == 0:
        ctx.fingerprint = ["empty"]
        return
    t0 = members[0].t_start
    if any(members[i].t_start - members[i - 1].t_stop > 0 for i in range(1, len(members))):
        ctx.hit("gaps_between_frames")
    kw = kwargs_of(sc, fmin)
    same_t = len({m.tchans for m in members}) == 1
    if (sc["path"]["kind"] == "array" or sc["t"]["kind"] == "array") and not same_t:
        ctx.fingerprint = ["array_needs_equal_tchans"]
        return
    if sc["path"]["kind"] == "array":
        ctx.hit("array_path")
    if sc["path"]["kind"] == "rfi":
        ctx.hit("stateful_rfi_path")
    tch0 = members[0].tchans

    # ---- nominal: injections against the shifted-callable twin ---------------------
    box = {"counts": {}}
    current = {"j": None}

    def instrument(fr, j):
        cls_add = type(fr).add_signal

        def add_signal(*a, **k):
            current["j"] = j
            return cls_add(fr, *a, **k)
        fr.add_signal = add_signal
    for j, fr in enumerate(members):
        instrument(fr, j)

    def wrapped_components(b):
        path, tp, fp, bpp, timedep = make_components(sc, tch0, fmin)
        if callable(path):
            path = Counted(path, "path", b)
        if callable(tp):
            tp = Counted(tp, "t_profile", b)
        fp = Counted(fp, "f_profile", b)
        if callable(bpp):
            bpp = Counted(bpp, "bp_profile", b)
        return path, tp, fp, bpp, timedep

    ts_before = [np.array(fr.ts, copy=True) for fr in all_frames]
    if any(sp.get("ts_origin") for sp in sc["frames"]):
        ctx.hit("frame_with_own_time_origin")
    expected_delta = [np.zeros(fr.shape) for fr in members]
    timedep = False
    base_members, base_t0 = members, t0
    for rep in range(sc["repeats"]):
        if rep:
            ctx.hit("repeated_injection")
        use = cad
        members, t0 = base_members, base_t0
        if rep == 1 and cad2 is not None and sc["path"]["kind"] != "array" and sc["t"]["kind"] != "array":
            # the same frames, now reached through another selection: other first frame, other offsets
            use = cad2
            members = list(cad2)
            t0 = members[0].t_start
            ctx.hit("second_injection_through_other_selection")
            for j, fr in enumerate(members):
                instrument(fr, j)
        path, tp, fp, bpp, timedep = wrapped_components(box)
        tpath, ttp, tfp, tbpp, _ = make_components(sc, tch0, fmin)       # twin's own instances (same seeds)
        data_before = [np.array(fr.data, copy=True) for fr in all_frames]
        try:
            if sc.get("positional"):
                # the options handed over by position, in the documented order of Frame.add_signal
                order = ["bounding_f_range", "integrate_path", "integrate_t_profile", "integrate_f_profile", "doppler_smearing",
                         "t_subsamples", "f_subsamples", "smearing_subsamples"]
                defaults = {"bounding_f_range": None, "integrate_path": False, "integrate_t_profile": False,
                            "integrate_f_profile": False, "doppler_smearing": False, "t_subsamples": 10, "f_subsamples": 10,
                            "smearing_subsamples": 10}
                npos = min(sc["positional"], len(order))
                pos = [kw.get(k, defaults[k]) for k in order[:npos]]
                rest = {k: v for k, v in kw.items() if k not in order[:npos]}
                use.add_signal(path, tp, fp, bpp, *pos, **rest)
                ctx.hit("options_by_position")
            else:
                use.add_signal(path, tp, fp, bpp, **kw)
        except Exception as e:
            ctx.violation("nominal", "C16/nominal/raises:%s" % type(e).__name__, repr(e))
            return
        ctx.op("add_signal")
        for j, fr in enumerate(members):
            off = fr.t_start - t0
            twin = stg.Frame(fchans=g["fchans"], tchans=fr.tchans, df=g["df"], dt=g["dt"], fch1=g["fch1"],
                             ascending=g["ascending"], t_start=fr.t_start, seed=1)
            k_all = all_frames.index(fr)
            twin.ts = np.array(ts_before[k_all], copy=True)       # "that frame's own times"
            sp = (lambda tt, _p=tpath, _o=off: _p(np.asarray(tt) + _o)) if callable(tpath) else tpath
            st = (lambda tt, _p=ttp, _o=off: _p(np.asarray(tt) + _o)) if callable(ttp) else ttp
            want = twin.add_signal(sp, st, tfp, tbpp, **kw)
            k_all = all_frames.index(fr)
            delta = fr.data - data_before[k_all]
            scale = max(float(np.max(np.abs(want))), float(np.max(np.abs(data_before[k_all]))), 1e-300)
            ok = np.all(np.abs(delta - want) <= 1e-7 * scale)
            ctx.event("delta", j, delta)
            if not ok:
                which = [k for k in ("integrate_path", "integrate_t_profile", "integrate_f_profile", "doppler_smearing") if opts[k]]
                ctx.violation("continuity", "C16/signal/%s_frame/%s" % ("first" if j == 0 else "later", "+".join(which) or "plain"),
                              "frame %d (offset %.6g s): injected data differs from single-frame injection evaluated at "
                              "t + offset; max |diff| %.4g of scale %.4g" % (j, off, float(np.max(np.abs(delta - want))), scale))
                return
            if use is cad:
                expected_delta[j] += want
            ctx.checks += 1
        # frames that are not members must be untouched
        for k_all, fr in enumerate(all_frames):
            if fr not in members:
                ctx.check(np.array_equal(fr.data, data_before[k_all]), "isolation", "C16/data/non_member_frame_touched", "")
        if not _ts_intact(ctx, all_frames, ts_before, members, t0, rep + 1, "after_injection"):
            return
    used_other = members is not base_members
    members, t0 = base_members, base_t0
    for j, fr in enumerate(members):
        instrument(fr, j)
    if len(members) >= 2 and timedep:
        ctx.nontrivial = True
    ctx.sim_time += sum(fr.tchans for fr in members) * g["dt"]

    # ---- enumerated faults --------------------------------------------------------
    snap_data = [np.array(fr.data, copy=True) for fr in all_frames]

    def restore():
        for fr, d, t in zip(all_frames, snap_data, ts_before):
            fr.data = np.array(d, copy=True)
            fr.ts = np.array(t, copy=True)

    # (1) every invocation index of every callable
    counts = {k: v // sc["repeats"] for k, v in box["counts"].items()}
    npoints = 0
    for name in sorted(counts):
        for k in range(1, counts[name] + 1):
            restore()
            b = {"counts": {}, "fail": (name, k), "fired": False}
            path, tp, fp, bpp, _ = wrapped_components(b)
            current["j"] = None
            try:
                cad.add_signal(path, tp, fp, bpp, **kw)
                raised = None
            except InjectedCallbackError as e:
                raised = e
            except Exception as e:
                raised = e
            npoints += 1
            if not b["fired"]:
                continue
            ctx.fired("callback_error:" + name)
            jfail = current["j"]
            if jfail:
                ctx.hit("callback_raised_on_frame_k>0")
            if not ctx.check(isinstance(raised, InjectedCallbackError), "fault", "C16/fault/callback_error_swallowed",
                             lambda: "callable %s raised on invocation %d but add_signal finished with %r" % (name, k, raised)):
                return
            if not _after_fault(ctx, all_frames, members, ts_before, snap_data, expected_delta, jfail, t0, "callback_error", sc):
                return
    # (2) every line event inside the per-frame injection
    restore()
    targets = ["frame.py:add_signal"]
    path, tp, fp, bpp, _ = make_components(sc, tch0, fmin)
    h = ctx.seams.interrupt_at(targets, None)
    try:
        cad.add_signal(path, tp, fp, bpp, **kw)
    finally:
        ctx.seams.stop_trace()
    nlines = h.count
    points = list(range(1, nlines + 1))
    exhaustive = True
    # every point costs one injection into the whole cadence: long cadences get proportionally fewer points
    max_points = MAX_LINE_POINTS if len(all_frames) <= 8 else max(60, 6000 // len(all_frames))
    if nlines > max_points:
        step = nlines / float(max_points)
        points = sorted({int(1 + i * step) for i in range(max_points)})
        exhaustive = False
        ctx.hit("line_points_subsampled")
    for jline in points:
        restore()
        path, tp, fp, bpp, _ = make_components(sc, tch0, fmin)
        current["j"] = None
        h = ctx.seams.interrupt_at(targets, jline)
        try:
            cad.add_signal(path, tp, fp, bpp, **kw)
            raised = None
        except InjectedInterrupt as e:
            raised = e
        except Exception as e:
            raised = e
        finally:
            ctx.seams.stop_trace()
        npoints += 1
        if not h.fired:
            continue
        jfail = current["j"]
        if jfail:
            ctx.hit("interrupt_inside_later_frame")
        if not isinstance(raised, InjectedInterrupt):
            # the library converted or swallowed the interrupt: not what the statement is about, but the
            # time axes must be intact all the same
            pass
        if not _after_fault(ctx, all_frames, members, ts_before, snap_data, expected_delta, jfail, t0, "interrupt", sc):
            return
    restore()
    ctx.hit("fault_points_enumerated", npoints)
    ctx.event("faults", npoints)

    # ---- overwrite_times and consolidate ---------------------------------------------
    fr2 = build_frames(sc)
    form = sc.get("ow_form", "ctor")
    if form == "append":
        # built up frame by frame, as the documentation does, then laid out
        c2 = stg.Cadence(t_slew=sc["t_slew"])
        for f in fr2:
            c2.append(f)
        c2.overwrite_times()
    elif form == "grow" and len(fr2) > 1:
        c2 = stg.Cadence(fr2[:1], t_slew=sc["t_slew"], t_overwrite=True)
        c2.extend(fr2[1:])
        c2.overwrite_times()
    elif form == "reassign":
        c2 = stg.Cadence(fr2, t_slew=sc["t_slew"] + 17.0, t_overwrite=True)
        c2.t_slew = sc["t_slew"]
        c2.overwrite_times()
    else:
        c2 = stg.Cadence(fr2, t_slew=sc["t_slew"], t_overwrite=True)
    if form != "ctor":
        ctx.hit("overwrite_times_called_after_construction")
    st = np.asarray(c2.slew_times)
    tol = np.array([4 * math.ulp(max(abs(f.t_start), 1.0)) for f in fr2[1:]])
    ctx.check(st.shape == (len(fr2) - 1,) and np.all(np.abs(st - sc["t_slew"]) <= tol), "slew", "C16/overwrite_times/slew_spacing",
              lambda: "slew_times %r, t_slew %r" % (st, sc["t_slew"]))
    ctx.check(fr2[0].t_start == sc["frames"][0]["t_start"], "slew", "C16/overwrite_times/first_frame_moved", "")
    for i, f in enumerate(fr2):
        f.data = f.data + (i + 1)
    cons = c2.consolidate()
    want_data = np.concatenate([f.data for f in fr2], axis=0)
    want_ts = np.concatenate([f.ts + f.t_start for f in fr2])
    ok = cons is not None and cons.data.shape == want_data.shape and np.array_equal(cons.data, want_data) \
        and np.array_equal(np.asarray(cons.ts), want_ts) and cons.t_start == fr2[0].t_start \
        and cons.tchans == sum(f.tchans for f in fr2) and cons.fchans == g["fchans"] \
        and np.array_equal(cons.fs, fr2[0].fs)
    ctx.check(ok, "consolidate", "C16/consolidate/data_or_times", "consolidated frame differs from the concatenation in order")
    # the list of an (ordered) cadence is changed between two injections: the second one goes by the members and start
    # times as they are then
    mb = sc.get("mutate_between")
    if mb and sc["path"]["kind"] not in ("array", "rfi") and sc["t"]["kind"] != "array" and not (ctx.violations and ctx.stop_on_violation):
        fr3 = build_frames(sc)
        tmax = max(f.t_stop for f in fr3)
        extra = stg.Frame(fchans=g["fchans"], tchans=fr3[0].tchans, df=g["df"], dt=g["dt"], fch1=g["fch1"], ascending=g["ascending"],
                          t_start=(tmax + 77.0) if mb != "insert0" else (min(f.t_start for f in fr3) - 500.0), seed=5)
        c3 = (stg.OrderedCadence(fr3, order="ABACADAEAFAG" * (len(fr3) // 12 + 2)) if mb != "plain_setitem"
              else stg.Cadence(fr3))
        p1, t1, f1, b1, _ = make_components(sc, fr3[0].tchans, fmin)
        c3.add_signal(p1, t1, f1, b1, **kw)
        if mb in ("setitem", "plain_setitem"):
            c3[len(c3) - 1] = extra
        elif mb == "insert0":
            c3.insert(0, extra)
        elif mb == "insert_mid":
            c3.insert(1, extra)
        elif len(c3) > 1:
            del c3[0]
        ctx.op("mutate_between_injections")
        ctx.hit("cadence_list_changed_between_injections")
        mem3 = list(c3)
        before3 = [np.array(f.data, copy=True) for f in mem3]
        ts3 = [np.array(f.ts, copy=True) for f in mem3]
        p2, t2, f2, b2, _ = make_components(sc, fr3[0].tchans, fmin)
        c3.add_signal(p2, t2, f2, b2, **kw)
        q1, q2, q3, q4, _ = make_components(sc, fr3[0].tchans, fmin)
        for j3, f in enumerate(mem3):
            off = f.t_start - mem3[0].t_start
            tw = stg.Frame(fchans=g["fchans"], tchans=f.tchans, df=g["df"], dt=g["dt"], fch1=g["fch1"], ascending=g["ascending"],
                           t_start=f.t_start, seed=1)
            tw.ts = np.array(ts3[j3], copy=True)
            sp = (lambda tt, _p=q1, _o=off: _p(np.asarray(tt) + _o)) if callable(q1) else q1
            st_ = (lambda tt, _p=q2, _o=off: _p(np.asarray(tt) + _o)) if callable(q2) else q2
            want3 = tw.add_signal(sp, st_, q3, q4, **kw)
            delta3 = f.data - before3[j3]
            sc3 = max(float(np.max(np.abs(want3))), float(np.max(np.abs(before3[j3]))), 1e-300)
            if not ctx.check(np.all(np.abs(delta3 - want3) <= 1e-7 * sc3), "continuity",
                             "C16/signal/after_list_change/%s" % mb, lambda: "member %d (offset %.6g s) of the changed cadence" % (j3, off)):
                break
    # the consolidated frame is a new frame: it shares no data with the members, also for sub-cadences of one frame
    # (label subsets, length-1 slices), and editing either side leaves the other alone
    subs = [("all", c2)] + [("one_frame:%d" % k, c2[k:k + 1]) for k in sorted({0, len(fr2) - 1})]
    for nm, sub in subs:
        cs = sub.consolidate()
        mem = list(sub)
        if not ctx.check(cs is not None and not any(np.shares_memory(cs.data, f.data) or np.shares_memory(np.asarray(cs.ts), np.asarray(f.ts))
                                                    for f in mem), "consolidate",
                         "C16/consolidate/shares_memory_with_member/%s" % nm.split(":")[0], ""):
            break
        before = [np.array(f.data, copy=True) for f in mem]
        held = np.array(cs.data, copy=True)
        cs.data += 1.0
        ok1 = all(np.array_equal(f.data, b) for f, b in zip(mem, before))
        for f in mem:
            f.data = f.data * 1.0
            f.data += 2.0
        ok2 = np.array_equal(cs.data, held + 1.0)
        if not ctx.check(ok1 and ok2, "consolidate", "C16/consolidate/not_independent_of_members/%s" % nm.split(":")[0], ""):
            break
        ctx.hit("consolidated_one_frame_cadence" if nm != "all" else "consolidated_full_cadence")
    ctx.fingerprint = [len(members), sel["kind"], sc["path"]["kind"], sc["t"]["kind"], sc["f"]["kind"], sc["bp"]["kind"],
                       [k for k in ("integrate_path", "integrate_t_profile", "integrate_f_profile", "doppler_smearing") if opts[k]],
                       bool(sc["bounding"]), sc["repeats"], same_t, exhaustive]


def _ts_intact(ctx, all_frames, ts_before, members, t0, ninj, when):
    for k, fr in enumerate(all_frames):
        off = abs(fr.t_start - t0) if fr in members else 0.0
        tol = 4 * ninj * math.ulp(max(off, float(np.max(np.abs(ts_before[k]))), 1e-300))
        ts = np.asarray(fr.ts)
        ok = ts.shape == ts_before[k].shape and np.all(np.abs(ts - ts_before[k]) <= tol)
        if not ok:
            shifted = ts.shape == ts_before[k].shape and np.allclose(ts - ts_before[k], fr.t_start - t0, rtol=1e-9, atol=1e-6)
            ctx.violation("ts", "C16/ts/%s/%s" % (when, "left_shifted_by_offset" if shifted else "changed"),
                          "frame %d: ts[0] %r, before %r (offset %r)" % (k, ts.flat[0] if ts.size else None,
                                                                          ts_before[k].flat[0], fr.t_start - t0))
            return False
    ctx.checks += 1
    return True


def _after_fault(ctx, all_frames, members, ts_before, snap_data, expected_delta, jfail, t0, kind, sc):
    if not _ts_intact(ctx, all_frames, ts_before, members, t0, 1, "after_" + kind):
        return False
    if jfail is None:
        return True
    for j, fr in enumerate(members):
        k = all_frames.index(fr)
        if j > jfail:
            if not ctx.check(np.array_equal(fr.data, snap_data[k]), "fault", "C16/data/later_frame_touched_after_" + kind,
                             lambda: "frame %d changed although the injection failed in frame %d" % (j, jfail)):
                return False
        elif j < jfail and sc["path"]["kind"] != "rfi" and sc["repeats"] == 1:
            delta = fr.data - snap_data[k]
            scale = max(float(np.max(np.abs(expected_delta[j]))), float(np.max(np.abs(snap_data[k]))), 1e-300)
            if not ctx.check(np.all(np.abs(delta - expected_delta[j]) <= 1e-7 * scale), "fault",
                             "C16/data/earlier_frame_incomplete_after_" + kind, lambda: "frame %d" % j):
                return False
    return True
