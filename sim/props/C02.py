"""C02 — recorded RAW samples equal the reference pipeline, whatever the partitioning.

RAW world.  The partitioning *is* a schedule: a stream is consumed in
num_subblocks x num_blocks x files chunks with three pieces of carried state
(PFB tail cache, quantiser statistics/counters, start_obs).  Faults: ENOSPC/EIO
at the k-th write, open failure, source callback error — then a retry on the
same backend and antenna, which must again be exact.
"""
import copy

import numpy as np

from ..models import guppi
from ..models import voltage as mv
from ..worlds import raw as W

ID = "C02"
WORLD = "raw"
LEVEL = "exploration"
EST_RUN_S = 0.08
RULE = ("scenario = seeded antenna (single/array, 1-2 pols, noise + tones), elements (T, B, window, 4/8 bit, refresh "
        "periods -2..4, stats_calc_num_samples tiny/around chunk/10000), backend (start_chan, num_chans, block size, "
        "blocks_per_file 1-4, num_subblocks 1..W+3) and 1-3 recordings (1-6 blocks) on the same or rebuilt backend, "
        "optionally aborted by an injected ENOSPC/EIO/open/source fault and retried; oracle A decodes the files with "
        "RefGuppi and compares every sample with RefPipeline driven by the antenna request log; oracle B re-records "
        "with other (num_subblocks, blocks_per_file) in common-prefix configurations and compares bytes; oracle C "
        "compares collect_data_block with record; non-trivial = a completed recording of >= 2 sub-block calls judged "
        "by A; distinct = abstract fingerprint")
COMPONENTS = {"real": ["setigen.voltage (Antenna, MultiAntennaArray, DataStream, RealQuantizer, ComplexQuantizer, "
                       "PolyphaseFilterbank, RawVoltageBackend.record/collect_data_block)", "real files in a per-run scratch dir"],
              "stub": ["open() wrapper injecting ENOSPC/EIO/EACCES", "SimClock for stage timers", "tqdm no-op shim",
                       "antenna.get_samples wrapper (request log, injected source failure)"]}
ASSUMPTIONS = ["the antenna voltage stream is what get_samples returned (C10/C15 judge the antenna itself)",
               "+-1 tolerated iff the reference pre-rounding value is within 1e-7 of a rounding boundary (FFT vs direct DFT)",
               "a run whose digitiser input sits within 1e-9 of a rounding boundary is not value-judged (counted as tie)"]
PROBES = ["num_subblocks_reassigned_between_recordings", "predecessor_in_same_process", "predecessor_same_coefficients_other_split", "last_subblock_shorter", "num_subblocks_adjusted", "subblocks_exceed_windows", "multi_file_last_partial",
          "retry_after_fault", "partition_twin_compared", "collect_vs_record", "four_bit", "array_source",
          "stats_refresh_mid_recording", "retry_over_leftover_files"]


def generate(rng, tier):
    common = rng.random() < 0.45
    # partition twins need a voltage stream that is bit-identical however it is requested: exact (dyadic) times
    ant = W.gen_antenna(rng, dyadic=True if common else None)
    el = W.gen_elements(rng, tier, common_prefix=common)
    # SCALE: hundreds of PFB windows per block (see gen_backend)
    big = rng.random() < (0.05 if tier == "quick" else 0.1)
    be = W.gen_backend(rng, ant, el, big_w=big)
    ops = []
    nrec = rng.choice([1, 1, 2, 3]) if not big else 1
    for i in range(nrec):
        op = {"op": "record", "num_blocks": rng.choice([1, 2, 2, 3, 4, 5, 6]) if not big else rng.choice([1, 2]),
              "digitize": rng.random() < 0.7, "template": rng.random() < 0.2}
        if rng.random() < 0.25:
            k = rng.choice(["enospc", "eio", "open", "source", "interrupt"])
            if k in ("enospc", "eio"):
                op["fault"] = {"kind": k, "at": rng.randint(1, 40), "torn": rng.random() < 0.3}
            elif k == "open":
                op["fault"] = {"kind": "open", "at": rng.randint(1, 3), "errno": rng.choice(["eacces", "emfile"])}
            elif k == "interrupt":
                op["fault"] = W.gen_interrupt(rng, 400)
            else:
                op["fault"] = {"kind": "source", "at": rng.randint(1, 6)}
        ops.append(op)
        if rng.random() < 0.15:
            ops.append({"op": "rebuild"})
        elif rng.random() < 0.2:
            ops.append({"op": "set_subblocks", "n": rng.randint(1, be["W"] + 2)})
    if rng.random() < 0.3:
        ops.append({"op": "collect", "blocks": rng.choice([1, 2, 3]), "digitize": rng.random() < 0.7})
    sc = {"seams": {"clock_origin": 1.7e9 + rng.randrange(10 ** 6), "clock_jitter_seed": rng.randrange(1 << 20),
                    "entropy_salt": rng.randrange(1 << 20), "scratch": "c02"},
          "ant": ant, "el": el, "be": be, "ops": ops, "common_prefix": common}
    if rng.random() < 0.25:
        # a predecessor in the same process: a near twin of this configuration (one parameter changed) is built and
        # records a block before the scenario proper.  Anything memoised under too coarse a key is then handed on.
        what = rng.choice(["split", "split", "window", "bits", "seed"])
        sc["predecessor"] = {"what": what, "digitize": rng.random() < 0.6}
    if common:
        alts = []
        for _ in range(rng.choice([2, 3, 4])):
            alts.append({"num_subblocks": rng.randint(1, be["W"] + 3) if not big else rng.choice([1, 2, 3, 4, 5, 93, be["W"]]),
                         "blocks_per_file": rng.choice([1, 2, 3, 4, 7])})
        sc["partitions"] = alts
    return sc


def simplify(sc):
    def cp():
        return copy.deepcopy(sc)
    ant = sc["ant"]
    if ant["kind"] == "array":
        c = cp()
        a = c["ant"]
        a["kind"] = "single"
        a["n_ant"] = 1
        a["streams"] = a["streams"][:1]
        a.pop("bg", None)
        a.pop("delays", None)
        c["be"]["block_size"] = c["be"]["block_size"] // ant["n_ant"]
        yield c
    if ant["pols"] == 2:
        c = cp()
        c["ant"]["pols"] = 1
        c["ant"]["streams"] = [s[:1] for s in c["ant"]["streams"]]
        if "bg" in c["ant"]:
            c["ant"]["bg"] = c["ant"]["bg"][:1]
        c["be"]["block_size"] //= 2
        yield c
    for i, strs in enumerate(ant["streams"]):
        for p, s in enumerate(strs):
            if s["tones"]:
                c = cp()
                c["ant"]["streams"][i][p]["tones"] = []
                if c["ant"]["streams"][i][p]["noise"] is None:
                    c["ant"]["streams"][i][p]["noise"] = [0.0, 1.0]
                yield c
    el = sc["el"]
    for key, v in (("window", "hamming"),):
        if el[key] != v:
            c = cp()
            c["el"][key] = v
            yield c
    for q in ("dig", "req"):
        for key, v in (("period", 1), ("ncalc", 10000)):
            if el[q][key] != v and not sc.get("common_prefix"):
                c = cp()
                c["el"][q][key] = v
                yield c
    be = sc["be"]
    if be["num_chans"] > 1:
        c = cp()
        c["be"]["block_size"] = be["block_size"] // be["num_chans"]
        c["be"]["num_chans"] = 1
        yield c
    if be["start_chan"] > 0:
        c = cp()
        c["be"]["start_chan"] = 0
        yield c
    if be["W"] > 1:
        for nw in (1, be["W"] // 2, be["W"] - 1):
            if 1 <= nw < be["W"]:
                c = cp()
                c["be"]["block_size"] = be["block_size"] // be["W"] * nw
                c["be"]["W"] = nw
                c["be"]["spb"] = nw * el["T"]
                yield c
    if be["num_subblocks"] > 1:
        for ns in (1, be["num_subblocks"] - 1):
            c = cp()
            c["be"]["num_subblocks"] = ns
            yield c
    if be["blocks_per_file"] > 1:
        c = cp()
        c["be"]["blocks_per_file"] = 1
        yield c
    for j, op in enumerate(sc["ops"]):
        if op["op"] == "record":
            if op.get("num_blocks", 1) > 1:
                c = cp()
                c["ops"][j]["num_blocks"] -= 1
                yield c
            if op.get("fault"):
                c = cp()
                c["ops"][j]["fault"] = None
                yield c
            if op.get("template"):
                c = cp()
                c["ops"][j]["template"] = False
                yield c
    if sc.get("partitions") and len(sc["partitions"]) > 1:
        for i in range(len(sc["partitions"])):
            c = cp()
            del c["partitions"][i]
            yield c


# ---------------------------------------------------------------------------

def _data_bytes(blocks):
    return b"".join(bytes(b["data"]) for b in blocks)


def _record_and_judge(ctx, sc, backend, log, stem, op, be, judge=True):
    ant, el = sc["ant"], sc["el"]
    mark = log.mark()
    op = dict(op)
    op["_log"] = log
    status, exc = W.do_record(ctx, backend, stem, op, header={})
    if status == "fault":
        ctx.event("record_aborted", type(exc).__name__)
        return "fault", None
    if status == "error":
        ctx.violation("record", "C02/record/raises:%s@%s" % (type(exc).__name__, W.innermost_setigen_frame(exc)), repr(exc))
        return "error", None
    try:
        files, per_file, blocks = W.parse_recording(stem)
    except guppi.GuppiFormatError as e:
        ctx.violation("framing", "C02/framing/" + e.cls, str(e))
        return "error", None
    ctx.event("record", _data_bytes(blocks))
    if not judge:
        return "ok", blocks
    reqs = log.since(mark)
    n = op["num_blocks"]
    if not ctx.check(len(blocks) == n, "count", "C02/count/blocks_written", lambda: "%d blocks, wanted %d" % (len(blocks), n)):
        return "error", blocks
    ref = W.ref_pipeline(reqs, ant, el, be, op.get("digitize", True))
    got = W.decoded_stream(blocks, ant, el, be)
    counts = ref["chunks"]
    if len(counts) >= 2:
        ctx.nontrivial = True
    per_block = len(counts) / max(n, 1)
    if len(set(counts[1:])) > 1 or (len(counts) > 1 and counts[0] != counts[1]):
        ctx.hit("last_subblock_shorter")
    if backend.num_subblocks != be["num_subblocks"]:
        ctx.hit("num_subblocks_adjusted")
    if be["num_subblocks"] > be["W"]:
        ctx.hit("subblocks_exceed_windows")
    if n % backend.blocks_per_file and n > backend.blocks_per_file:
        ctx.hit("multi_file_last_partial")
    if (el["req"]["period"] > 0 and len(counts) > el["req"]["period"]) or (
            el["dig"]["period"] > 0 and len(counts) > el["dig"]["period"]):
        ctx.hit("stats_refresh_mid_recording")
    W.compare_samples(ctx, "C02", got, ref, el, be, backend.blocks_per_file)
    ctx.sim_time += sum(r.shape[-1] for r in reqs) / ant["fs"]
    return "ok", blocks


def execute(sc, ctx):
    ant, el, be = sc["ant"], sc["el"], sc["be"]
    if el["bits"] == 4:
        ctx.hit("four_bit")
    if ant["kind"] == "array":
        ctx.hit("array_source")
    pre = sc.get("predecessor")
    if pre:
        el0, ant0, be0 = copy.deepcopy(el), copy.deepcopy(ant), copy.deepcopy(be)
        T, B = el0["T"], el0["B"]
        if pre["what"] == "split":
            # same number of coefficients, other taps/branches split; the block still holds whole windows
            for t in (2 * T, T // 2, 4 * T):
                if t >= 1 and (T * B) % t == 0 and (T * B // t) % 2 == 0 and T * B // t >= 2 * (be0["start_chan"] + be0["num_chans"]) \
                        and be0["spb"] % t == 0:
                    el0["T"], el0["B"] = t, T * B // t
                    ctx.hit("predecessor_same_coefficients_other_split")
                    break
        elif pre["what"] == "window":
            el0["window"] = {"hamming": "hann", "hann": "blackman", "blackman": "boxcar", "boxcar": "hamming"}.get(el0["window"], "hann")
        elif pre["what"] == "bits" and el0["bits"] == 8 and be0["block_size"] % 2 == 0 and (be0["spb"] * 2) % el0["T"] == 0:
            el0["bits"] = 4
        else:
            ant0["seed"] = (ant0["seed"] + 1) % (1 << 30)
        try:
            a0 = W.build_antenna(ant0)
            b0 = W.build_backend(a0, el0, be0)
            b0.record(ctx.seams.path("pre"), num_blocks=1, length_mode="num_blocks", header_dict={}, digitize=pre["digitize"],
                      verbose=False)
            ctx.hit("predecessor_in_same_process")
        except Exception as e:
            # the variant is not a configuration the constructor admits: no predecessor then
            ctx.hit("predecessor_not_admitted")
    antenna = W.build_antenna(ant)
    log = W.RequestLog(antenna, ctx)
    backend = W.build_backend(antenna, el, be)
    nrec = 0
    last_fault = False
    first_ok_blocks = None
    first_ok_op = None
    first_ok_reqs = None
    for j, op in enumerate(sc["ops"]):
        ctx.op(op["op"] + ("+fault" if op.get("fault") else ""))
        if op["op"] == "record":
            stem = ctx.seams.path("r%d" % j)
            status, blocks = _record_and_judge(ctx, sc, backend, log, stem, op, be)
            if status == "ok":
                if last_fault:
                    ctx.hit("retry_after_fault")
                if first_ok_blocks is None and nrec == 0:
                    first_ok_blocks, first_ok_op = blocks, op
                    first_ok_reqs = list(log.requests)
                last_fault = False
            elif status == "fault":
                last_fault = True
                # bounded liveness: the retry (same backend, same antenna) must complete and be exact
                retry = dict(op)
                retry["fault"] = None
                ctx.op("record_retry")
                # the user re-runs the same command: half of the retries go to the *same* stem, over the leftovers
                rstem = stem if (j + op["num_blocks"]) % 2 == 0 else ctx.seams.path("r%dretry" % j)
                if rstem == stem:
                    ctx.hit("retry_over_leftover_files")
                status2, _ = _record_and_judge(ctx, sc, backend, log, rstem, retry, be)
                if status2 == "ok":
                    ctx.hit("retry_after_fault")
                last_fault = False
            nrec += 1
        elif op["op"] == "set_subblocks":
            # the documented memory knob, re-assigned on a backend that has already recorded
            backend.num_subblocks = W._icast(el)(op["n"])
            ctx.hit("num_subblocks_reassigned_between_recordings")
            ctx.event("set_subblocks", op["n"])
        elif op["op"] == "rebuild":
            antenna = W.build_antenna(ant)
            log = W.RequestLog(antenna, ctx)
            backend = W.build_backend(antenna, el, be)
            ctx.event("rebuild")
        elif op["op"] == "collect":
            _collect_vs_record(ctx, sc, op)
        if ctx.violations and ctx.stop_on_violation:
            return
    # oracle B: partition invariance on a same-seed rebuild
    if sc.get("partitions") and first_ok_blocks is not None and not sc["ops"][0].get("fault"):
        base = _data_bytes(first_ok_blocks)
        for k, alt in enumerate(sc["partitions"]):
            be2 = dict(be, num_subblocks=alt["num_subblocks"], blocks_per_file=alt["blocks_per_file"])
            a2 = W.build_antenna(ant)
            log2 = W.RequestLog(a2, ctx)
            b2 = W.build_backend(a2, el, be2)
            op2 = dict(first_ok_op, fault=None)
            status, blocks2 = _record_and_judge(ctx, sc, b2, log2, ctx.seams.path("alt%d" % k), op2, be2, judge=False)
            if status != "ok":
                return
            # the statement is about one voltage stream: only compare when both partitionings drew
            # bit-identical voltages from their (same-seed) antennas
            v1 = np.concatenate(first_ok_reqs, axis=-1)
            v2 = np.concatenate(log2.requests, axis=-1)
            if v1.shape != v2.shape or not np.array_equal(v1, v2):
                # common-prefix scenarios use exact (dyadic) times, where the same-seed antenna must deliver the
                # same stream however it is requested; a gross difference means samples were lost, duplicated or
                # re-ordered at request boundaries inside the source, which the recorded bytes then inherit
                scale = max(float(np.max(np.abs(v1))), 1e-300)
                if ant["dyadic"] and v1.shape == v2.shape and float(np.max(np.abs(v1 - v2))) > 1e-6 * scale:
                    bad = np.argwhere(np.abs(v1 - v2) > 1e-6 * scale)[0]
                    ctx.violation("partition", "C02/partition/voltage_stream_depends_on_request_sizes/%s" % ant["kind"],
                                  "num_subblocks %d->%d: same-seed %s delivers different voltages (antenna %d pol %d sample %d)" % (
                                      be["num_subblocks"], alt["num_subblocks"], ant["kind"], bad[0], bad[1], bad[2]))
                    return
                ctx.hit("partition_twin_skipped_antenna_not_chunk_invariant")
                continue
            ctx.hit("partition_twin_compared")
            same = _data_bytes(blocks2) == base
            if not same:
                d1 = np.frombuffer(base, dtype=np.int8)
                d2 = np.frombuffer(_data_bytes(blocks2), dtype=np.int8)
                if len(d1) != len(d2):
                    where = "length %d vs %d" % (len(d1), len(d2))
                    tie = False
                else:
                    diff = np.flatnonzero(d1 != d2)
                    where = "first differing byte %d of %d (%d differ)" % (diff[0], len(d1), len(diff))
                    # FFT round-off at a rounding boundary may flip single values by one
                    tie = len(diff) <= 2 and np.all(np.abs(d1[diff].astype(int) - d2[diff].astype(int)) <= 1)
                if tie:
                    ctx.ties += 1
                else:
                    ctx.violation("partition", "C02/partition/bytes_depend_on_partition/%s" % (
                        "subblocks" if alt["blocks_per_file"] == be["blocks_per_file"] else
                        "blocks_per_file" if alt["num_subblocks"] == be["num_subblocks"] else "both"),
                        "num_subblocks %d->%d, blocks_per_file %d->%d: %s" % (
                            be["num_subblocks"], alt["num_subblocks"], be["blocks_per_file"], alt["blocks_per_file"], where))
                    return
            ctx.checks += 1
    nsub_class = "1" if be["num_subblocks"] == 1 else ("div" if be["W"] % be["num_subblocks"] == 0 else
                                                      (">W" if be["num_subblocks"] > be["W"] else "nodiv"))
    ctx.fingerprint = [ant["kind"], ant["n_ant"], ant["pols"], el["bits"], min(el["T"], 4), el["B"] > 16,
                       nsub_class, be["blocks_per_file"] > 1,
                       sorted({(o["op"], bool(o.get("fault")) and o["fault"]["kind"], o.get("digitize")) for o in sc["ops"]},
                              key=str),
                       bool(sc.get("partitions")), el["dig"]["period"] > 0, el["req"]["period"] > 0]


def _collect_vs_record(ctx, sc, op):
    """Oracle C: collect_data_block() returns exactly what record would have written;
    with requantize=False it returns the unquantised reference."""
    ant, el, be = sc["ant"], sc["el"], sc["be"]
    n = op["blocks"]
    a1 = W.build_antenna(ant)
    l1 = W.RequestLog(a1, ctx)
    b1 = W.build_backend(a1, el, be)
    status, blocks = _record_and_judge(ctx, sc, b1, l1, ctx.seams.path("cv"), {"op": "record", "num_blocks": n,
                                                                                "digitize": op["digitize"]}, be, judge=False)
    if status != "ok":
        return
    a2 = W.build_antenna(ant)
    l2 = W.RequestLog(a2, ctx)
    b2 = W.build_backend(a2, el, be)
    got = b"".join(np.array(b2.collect_data_block(digitize=op["digitize"], requantize=True, verbose=False),
                            dtype=np.int8).tobytes() for _ in range(n))
    ctx.hit("collect_vs_record")
    ctx.event("collect", got)
    ctx.check(got == _data_bytes(blocks), "collect", "C02/collect/differs_from_record",
              "collect_data_block x%d != bytes written by record" % n)
    # unquantised variant against RefPFB (its layout is only defined for the 8-bit stride)
    if el["bits"] != 8:
        return
    a3 = W.build_antenna(ant)
    l3 = W.RequestLog(a3, ctx)
    b3 = W.build_backend(a3, el, be)
    v = np.asarray(b3.collect_data_block(digitize=op["digitize"], requantize=False, verbose=False))
    ref = W.ref_pipeline(l3.requests, ant, el, be, op["digitize"])
    nch = be["num_chans"]
    for a in range(ant["n_ant"]):
        for p in range(ant["pols"]):
            want = ref["unq"][(a, p)]          # [spectrum, chan]
            rows = v[a * nch:(a + 1) * nch]
            stride = 2 * ant["pols"]
            re = rows[:, 2 * p::stride].T
            im = rows[:, 2 * p + 1::stride].T
            if el["bits"] == 4:
                # documented layout of the unquantised return is the 8-bit one
                pass
            m = min(len(want), re.shape[0])
            scale = float(np.max(np.abs(want))) if want.size else 1.0
            ok = re.shape[0] == be["spb"] and np.all(np.abs(re[:m] - want[:m].real) <= 1e-9 * scale + 1e-12) \
                and np.all(np.abs(im[:m] - want[:m].imag) <= 1e-9 * scale + 1e-12)
            if ref["tie_risk"]:
                continue
            ctx.check(ok, "collect", "C02/collect/unquantised_differs_from_reference_pfb",
                      lambda: "antenna %d pol %d shape %s want %s" % (a, p, re.shape, want.shape))
