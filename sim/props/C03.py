"""C03 — save/load through .fil/.h5 preserves data and axis registration.

FRAME world.  The statement quantifies over "every sequence of prior operations
on the frame or its parent": the attached blimpy Waterfall is hidden state
created lazily, inherited by derived frames and refreshed only partially before
a save — a history-dependent I/O path.  blimpy/h5py write through C: the files
are real, in the per-run scratch directory; no I/O faults are injected here (a
torn .fil/.h5 is outside the statement).  The clock jumps between operations.
"""
import copy
import math
import os

import numpy as np

from ..worlds import frame as F

ID = "C03"
WORLD = "frame"
LEVEL = "exploration"
EST_RUN_S = 0.1
RULE = ("scenario = a root frame by any construction route (sizes, shape, data, from_data, units, a .fil written by RefSigproc "
        "with seeded fch1/foff/nchans/tsamp/tstart/source_name) with distinct pixels, then a seeded history over all frames "
        "alive of get_waterfall / copy / pickle round trip / get_slice / dedrift / inject / noise / clock jump / save(fil|h5) "
        "where every save is followed by loading the file; oracle per save: loaded frame == saved frame (shape, float32 data, "
        "axes, resolutions, start time, orientation, source name), blimpy.Waterfall sees every pixel at the same sky "
        "frequency, Frame.get_waterfall() agrees, helper functions get_fs/get_ts/min_freq/max_freq/get_data have exactly the "
        "file's channel/integration counts and equal the loaded axes; non-trivial = a save of a frame with >= 1 prior history "
        "op; distinct = abstract fingerprint (route, orientation, format, history class of the saved frame)")
COMPONENTS = {"real": ["setigen.frame (save_fil/save_hdf5/save_h5/_update_waterfall/load path/copy/pickle)", "setigen.waterfall_utils",
                       "setigen.slice / dedrift", "blimpy Waterfall + sigproc + h5py (real files in the scratch dir)"],
              "stub": ["RefSigproc writer/reader for foreign .fil inputs", "SimClock with jumps", "entropy seam"]}
ASSUMPTIONS = ["data compared exactly as float32(saved data)", "frames have >= 3 integrations and >= 3 channels (blimpy's HDF5 reader rejects smaller files)", "frequency axis within 64 ulp of fmax, df/dt within 4 ulp, start time within 10 us",
               ".h5 files are checked through blimpy + h5py only (no independent HDF5 reader)"]
PROBES = ["derived_of_loaded_frame_saved", "derived_after_get_waterfall_saved", "loaded_resaved", "copy_saved", "pickled_saved",
          "format_fil", "format_h5", "descending", "ascending", "clock_jump", "refsigproc_input", "helpers_checked", "sliced_saved",
          "dedrifted_saved", "sibling_frames_alive", "retimed_after_history", "data_rebound_after_waterfall", "saved_over_existing_file",
          "save_failed_then_frame_used_again", "frame_from_time_selected_waterfall",
          "helpers_given_waterfall_object", "two_frames_share_one_waterfall_object"]


def generate(rng, tier):
    spec = F.gen_frame_spec(rng)
    g = spec["geom"]
    g["fchans"] = max(g["fchans"], 8)
    g["tchans"] = max(g["tchans"], 3)      # blimpy refuses .h5 files with fewer than 3 integrations or channels
    ops = []
    nops = rng.randint(1, 7)
    # SCALE: survey-sized frames of more than 2**20 samples whose row and column counts are not powers of two (staged or
    # block-wise writers and readers that only engage beyond some size, and their remainder handling)
    huge = rng.random() < (0.04 if tier == "quick" else 0.1)
    if huge:
        g["tchans"], g["fchans"] = rng.choice([(301, 4096), (17, 131072), (611, 4096), (20, 65536), (33, 40000), (6, 262144)])
        spec["route"] = rng.choice(["sizes", "data", "from_data"])
        nops = rng.randint(0, 2)
    for _ in range(nops):
        r = rng.random()
        fr = rng.randrange(0, 8)
        if r < 0.14:
            ops.append({"op": "get_waterfall", "fr": fr})
        elif r < 0.24:
            ops.append({"op": "copy", "fr": fr})
        elif r < 0.30:
            ops.append({"op": "pickle", "fr": fr})
        elif r < 0.46:
            a, b = sorted([rng.random(), rng.random()])
            ops.append({"op": "slice", "fr": fr, "a": a, "b": b})
        elif r < 0.58:
            ops.append({"op": "dedrift", "fr": fr, "px": rng.choice([0.3, 1.0, -1.0, 0.5, -0.4])})
        elif r < 0.66:
            ops.append({"op": "inject", "fr": fr, "sig": F.gen_signal(rng, g, allow_box=True)})
        elif r < 0.72:
            ops.append({"op": "noise", "fr": fr})
        elif r < 0.74:
            ops.append({"op": "clock_jump", "delta": rng.choice([3600.0, -7200.0, 86400.0 * 30])})
        elif r < 0.78:
            # the frame's data array is *replaced* (not edited in place): re-use for another realisation, load_npy, assignment
            ops.append({"op": "rebind", "fr": fr, "how": rng.choice(["zero_refill", "load_npy", "assign"]), "seed": rng.randrange(1 << 30)})
        elif r < 0.86 and r >= 0.80:
            # a save / get_waterfall that does not complete: rejected because the frame holds an unusable value at that
            # moment (repaired afterwards), or interrupted at an arbitrary line
            ops.append({"op": "failed_save", "fr": fr, "call": rng.choice(["save_fil", "save_hdf5", "get_waterfall"]),
                        "how": rng.choice(["bad_tstart", "bad_data", "interrupt", "interrupt"]), "at": rng.randint(1, 90)})
        elif r < 0.80:
            # the frame's start time is re-assigned, by the library's own Cadence(t_overwrite=True) or by the user
            ops.append({"op": "retime", "fr": fr, "via": rng.choice(["cadence", "assign"]), "slew": rng.choice([0.0, 150.0, 3600.0])})
        else:
            ops.append({"op": "save", "fr": fr, "fmt": rng.choice(["fil", "fil", "h5", "h5b"]), "overwrite": rng.random() < 0.25,
                        "load_form": rng.choice(["str", "str", "path", "object", "from_waterfall"])})
            if rng.random() < 0.12:
                ops[-1]["shared_wf"] = rng.randrange(1, 4)
            if rng.random() < 0.25:
                ops[-1]["partial"] = rng.randrange(1, 16)
                # ... and a later op often works on that part (the pool's newest member)
                if rng.random() < 0.7:
                    ops.append({"op": "save", "fr": -1, "fmt": rng.choice(["fil", "h5"]), "overwrite": False,
                                "load_form": rng.choice(["str", "object"])})
    ops.append({"op": "save", "fr": rng.randrange(0, 8), "fmt": rng.choice(["fil", "fil", "h5"]),
                "load_form": rng.choice(["str", "str", "path", "object", "from_waterfall"])})
    # sibling frames alive in the same session (own geometry, own source name): their operations interleave
    siblings = []
    for k in range(rng.choice([0, 0, 1, 1, 2]) if not huge else 0):
        sp = F.gen_frame_spec(rng, routes=["sizes", "shape", "data", "units", "load_fil"])
        sp["geom"]["fchans"] = max(sp["geom"]["fchans"], 8)
        sp["geom"]["tchans"] = max(sp["geom"]["tchans"], 3)
        sp["source_name"] = "SIBLING_%d" % k
        siblings.append(sp)
    return {"seams": {"clock_origin": 1.7e9 + rng.randrange(10 ** 6), "clock_jitter_seed": rng.randrange(1 << 20),
                      "entropy_salt": rng.randrange(1 << 20), "scratch": "c03"},
            "root": spec, "siblings": siblings, "ops": ops}


def simplify(sc):
    for i in range(len(sc.get("siblings", []))):
        c = copy.deepcopy(sc)
        del c["siblings"][i]
        yield c
    if sc["root"]["route"] != "sizes":
        c = copy.deepcopy(sc)
        c["root"]["route"] = "sizes"
        yield c
    for key, v in (("fchans", 8), ("tchans", 3)):
        if sc["root"]["geom"][key] > v:
            c = copy.deepcopy(sc)
            c["root"]["geom"][key] = v
            yield c
    for key in ("mjd", "source_name"):
        if sc["root"].get(key) is not None:
            c = copy.deepcopy(sc)
            c["root"][key] = None
            yield c
    for j, op in enumerate(sc["ops"]):
        if op.get("fr", 0) != 0:
            for v in (0, op["fr"] - 1):
                c = copy.deepcopy(sc)
                c["ops"][j]["fr"] = v
                yield c
        if op.get("fmt") in ("h5", "h5b"):
            c = copy.deepcopy(sc)
            c["ops"][j]["fmt"] = "fil"
            yield c


def _close(a, b, ulps):
    a, b = float(a), float(b)
    return abs(a - b) <= ulps * math.ulp(max(abs(a), abs(b), 1e-300))


def judge_roundtrip(ctx, saved, path, fmt, hist, load_form="str"):
    """All C03 oracles for one saved file."""
    import pathlib
    import setigen as stg
    from blimpy import Waterfall
    cls = "%s/%s/%s" % (fmt.replace("h5b", "h5"), "ascending" if saved.ascending else "descending", hist)
    try:
        # every documented way of constructing a frame from a file
        if load_form == "path":
            loaded = stg.Frame(waterfall=pathlib.Path(path))
        elif load_form == "object":
            loaded = stg.Frame(waterfall=Waterfall(path))
        elif load_form == "from_waterfall":
            loaded = stg.Frame.from_waterfall(path)
        else:
            loaded = stg.Frame(waterfall=path)
        ctx.hit("load_form_" + load_form)
    except (Exception, SystemExit) as e:
        ctx.violation("load", "C03/load/raises:%s/%s" % (type(e).__name__, cls), repr(e))
        return None
    ctx.event("load", loaded.data, loaded.fs, loaded.ts, float(loaded.t_start), str(loaded.source_name))
    if not ctx.check(tuple(loaded.shape) == tuple(saved.shape) and loaded.data.shape == saved.data.shape, "shape",
                     "C03/shape/" + cls, lambda: "loaded %s (data %s), saved %s" % (loaded.shape, loaded.data.shape, saved.shape)):
        return None
    want = saved.data.astype(np.float32)
    if not ctx.check(np.array_equal(np.asarray(loaded.data, dtype=np.float32), want), "data", "C03/data/" + cls,
                     lambda: "pixels differ; e.g. flipped? loaded[0,:3]=%r saved[0,:3]=%r saved[0,-3:]=%r" % (
                         loaded.data[0, :3], want[0, :3], want[0, -3:])):
        return None
    fmax = max(abs(saved.fmax), 1.0)
    ok = ctx.check(np.all(np.abs(np.asarray(loaded.fs) - np.asarray(saved.fs)) <= 64 * math.ulp(fmax)), "axes", "C03/fs/" + cls,
                   lambda: "loaded fs[0] %r, saved %r (df %r)" % (loaded.fs[0], saved.fs[0], saved.df))
    ok &= ctx.check(abs(loaded.df - saved.df) <= 4 * math.ulp(saved.df) + 64 * math.ulp(fmax) * 0 + 1e-9 * saved.df, "axes", "C03/df/" + cls,
                    lambda: "%r vs %r" % (loaded.df, saved.df))
    ok &= ctx.check(_close(loaded.dt, saved.dt, 4), "axes", "C03/dt/" + cls, lambda: "%r vs %r" % (loaded.dt, saved.dt))
    ok &= ctx.check(np.all(np.abs(np.asarray(loaded.ts) - np.asarray(saved.ts)) <= 8 * math.ulp(max(float(saved.ts[-1]), 1e-300))), "axes",
                    "C03/ts/" + cls, "")
    ok &= ctx.check(abs(loaded.t_start - saved.t_start) <= 1e-5, "axes", "C03/t_start/" + cls,
                    lambda: "loaded %r saved %r" % (loaded.t_start, saved.t_start))
    ok &= ctx.check(bool(loaded.ascending) == bool(saved.ascending), "axes", "C03/orientation/" + cls, "")
    ok &= ctx.check(_name(loaded.source_name) == _name(saved.source_name), "name", "C03/source_name/" + cls,
                    lambda: "loaded %r saved %r" % (loaded.source_name, saved.source_name))
    if not ok:
        return loaded
    # independent reader: blimpy sees every pixel at the same sky frequency
    try:
        wf = Waterfall(path)
        freqs = np.asarray(wf.get_freqs()) * 1e6
        d = np.asarray(wf.data)[:, 0, :]
    except (Exception, SystemExit) as e:
        ctx.violation("blimpy", "C03/blimpy/raises:%s/%s" % (type(e).__name__, cls), repr(e))
        return loaded
    order = np.argsort(freqs)
    okb = freqs.shape == (saved.fchans,) and d.shape == want.shape \
        and np.all(np.abs(freqs[order] - np.asarray(saved.fs)) <= 64 * math.ulp(fmax)) and np.array_equal(d[:, order].astype(np.float32), want)
    ctx.check(okb, "blimpy", "C03/blimpy/pixel_frequency/" + cls,
              lambda: "blimpy freqs %s.. data %s vs saved fs %s.." % (freqs[order][:2], d.shape, np.asarray(saved.fs)[:2]))
    # in-session equivalent
    try:
        w2 = saved.get_waterfall()
        h = w2.header
        d2 = np.asarray(w2.data)[:, 0, :]
        foff = h["foff"] * 1e6
        fch1 = h["fch1"] * 1e6
        f2 = fch1 + np.arange(d2.shape[1]) * foff
        o2 = np.argsort(f2)
        okw = h["nchans"] == saved.fchans and d2.shape == want.shape and np.array_equal(d2[:, o2].astype(np.float32), want) \
            and np.all(np.abs(f2[o2] - np.asarray(saved.fs)) <= 64 * math.ulp(fmax)) and _close(h["tsamp"], saved.dt, 4)
        ctx.check(okw, "get_waterfall", "C03/get_waterfall/" + cls, lambda: "nchans %r shape %s" % (h["nchans"], d2.shape))
    except (Exception, SystemExit) as e:
        ctx.violation("get_waterfall", "C03/get_waterfall/raises:%s/%s" % (type(e).__name__, cls), repr(e))
    # stand-alone helpers: given the file's name, or a Waterfall object of it (which stays the caller's, unchanged)
    harg = path
    dig0 = F.state_digest(saved)
    try:
        if load_form in ("object", "from_waterfall"):
            harg = Waterfall(path)
            ctx.hit("helpers_given_waterfall_object")
            wdata0 = np.array(harg.data, copy=True)
            with np.errstate(all="ignore"):
                hdb = np.asarray(stg.get_data(harg, db=True))
                want_db = 10 * np.log10(wdata0[:, 0, :].astype(np.float64))
            ctx.check(hdb.shape == want_db.shape and np.allclose(hdb, want_db, rtol=1e-6, atol=1e-6, equal_nan=True), "helpers",
                      "C03/helpers/get_data_db", "")
            ctx.check(np.array_equal(np.asarray(harg.data), wdata0, equal_nan=True), "helpers", "C03/helpers/waterfall_argument_modified",
                      "get_data(db=True) changed the Waterfall object it was given")
            # ... and the frame's own in-session Waterfall likewise
            wses = saved.get_waterfall()
            with np.errstate(all="ignore"):
                stg.get_data(wses, db=True)
            ctx.check(F.state_digest(saved) == dig0, "helpers", "C03/helpers/frame_modified_through_its_waterfall",
                      "a helper given frame.get_waterfall() changed the frame")
        hfs = np.asarray(stg.get_fs(harg))
        hts = np.asarray(stg.get_ts(harg))
        hmin, hmax = stg.min_freq(harg), stg.max_freq(harg)
        hdata = np.asarray(stg.get_data(harg))
    except (Exception, SystemExit) as e:
        ctx.violation("helpers", "C03/helpers/raises:%s/%s" % (type(e).__name__, cls), repr(e))
        return loaded
    ctx.hit("helpers_checked")
    file_fs = np.asarray(loaded.fs) if loaded.ascending else np.asarray(loaded.fs)[::-1]
    tolm = 64 * math.ulp(fmax * 1e-6)
    if ctx.check(hfs.shape == (loaded.fchans,), "helpers", "C03/helpers/get_fs/count", lambda: "%d entries for %d channels" % (len(hfs), loaded.fchans)):
        ctx.check(np.all(np.abs(hfs - file_fs * 1e-6) <= tolm), "helpers", "C03/helpers/get_fs/values", lambda: "%r vs %r" % (hfs[:2], file_fs[:2] * 1e-6))
    if ctx.check(hts.shape == (loaded.tchans,), "helpers", "C03/helpers/get_ts/count", lambda: "%d entries for %d integrations" % (len(hts), loaded.tchans)):
        ctx.check(np.all(np.abs(hts - np.asarray(loaded.ts)) <= 8 * math.ulp(max(float(loaded.ts[-1]), 1e-300))), "helpers", "C03/helpers/get_ts/values", "")
    ctx.check(abs(hmin - loaded.fmin * 1e-6) <= tolm and abs(hmax - loaded.fmax * 1e-6) <= tolm, "helpers", "C03/helpers/min_max_freq",
              lambda: "min %r max %r vs %r %r" % (hmin, hmax, loaded.fmin * 1e-6, loaded.fmax * 1e-6))
    file_data = want if loaded.ascending else want[:, ::-1]
    ctx.check(hdata.shape == file_data.shape and np.array_equal(hdata.astype(np.float32), file_data), "helpers", "C03/helpers/get_data", "")
    return loaded


def _name(s):
    if isinstance(s, bytes):
        s = s.decode()
    return str(s).strip()


def execute(sc, ctx):
    import setigen as stg
    spec = sc["root"]
    root, info = F.build_frame(spec, ctx)
    if not np.any(root.data):
        root.data += F.marker_data(spec).astype(root.data.dtype)
    if spec["route"] == "load_fil":
        ctx.hit("refsigproc_input")
    pool = [root]
    hist = {id(root): ["loaded"] if spec["route"] == "load_fil" else []}
    for sp in sc.get("siblings", []):
        fr_s, _ = F.build_frame(sp, ctx)
        if not np.any(fr_s.data):
            fr_s.data += F.marker_data(sp).astype(fr_s.data.dtype)
        pool.append(fr_s)
        hist[id(fr_s)] = ["loaded"] if sp["route"] == "load_fil" else []
        ctx.hit("sibling_frames_alive")
    nsave = 0
    saved_classes = set()
    last_path = {}
    for j, op in enumerate(sc["ops"]):
        kind = op["op"]
        ctx.op(kind)
        if kind == "clock_jump":
            ctx.seams.clock.jump(op["delta"])
            ctx.hit("clock_jump")
            continue
        fr = pool[op["fr"] % len(pool)]
        h = hist[id(fr)]
        try:
            if kind == "get_waterfall":
                fr.get_waterfall()
                h.append("wf")
            elif kind == "copy":
                c = fr.copy()
                pool.append(c)
                hist[id(c)] = h + ["copy"]
            elif kind == "pickle":
                p = ctx.seams.path("f%d.pickle" % j)
                fr.save_pickle(p)
                c = stg.Frame.load_pickle(p)
                pool.append(c)
                hist[id(c)] = [x for x in h if x not in ("wf", "loaded")] + ["pickle"]
            elif kind == "slice":
                n = fr.fchans
                if n < 6:
                    continue
                l = min(int(op["a"] * n), n - 3)
                r = max(min(int(math.ceil(op["b"] * n)), n), l + 3)
                c = stg.get_slice(fr, l, r)
                pool.append(c)
                hist[id(c)] = ["parent_" + x for x in h if x in ("wf", "loaded")] + ["slice"]
            elif kind == "dedrift":
                rate = op["px"] * fr.df / fr.dt
                if int(np.round(abs(rate) * fr.tchans * fr.dt / fr.df)) >= fr.fchans - 3:
                    continue
                c = stg.dedrift(fr, rate)
                pool.append(c)
                hist[id(c)] = ["parent_" + x for x in h if x in ("wf", "loaded")] + ["dedrift"]
            elif kind == "inject":
                g = {"fchans": fr.fchans, "tchans": fr.tchans, "df": fr.df, "dt": fr.dt}
                sig = op["sig"]
                if sig["opts"].get("integrate_f_profile") and sig["bp"]["kind"] == "array":
                    sig = dict(sig, bp={"kind": "none"})
                path, tp, fp, bpp = F.signal_components(sig, g, fr.tchans, fr.fmin, fs_len=fr.fchans)
                fr.add_signal(path, tp, fp, bpp, **sig["opts"])
                h.append("inject")
            elif kind == "noise":
                fr.add_noise(5, 1, noise_type="gaussian")
                h.append("noise")
            elif kind == "rebind":
                rr = F._REAL_DEFAULT_RNG([op["seed"], 21])
                new = rr.normal(20.0, 2.0, size=fr.data.shape) + np.arange(fr.data.shape[1])[None, :] * 0.21
                if op["how"] == "zero_refill":
                    fr.zero_data()
                    fr.add_noise(7, 1, noise_type="gaussian")
                    fr.data[:, fr.data.shape[1] // 4] += 30.0
                elif op["how"] == "load_npy":
                    pnpy = ctx.seams.path("d%d.npy" % j)
                    np.save(pnpy, new.astype(fr.data.dtype))
                    fr.load_npy(pnpy)
                else:
                    fr.data = new.astype(fr.data.dtype)
                h.append("rebound")
                ctx.hit("data_rebound_after_waterfall" if [x for x in h if x in ("wf", "saved", "copy", "loaded")] else "data_rebound")
            elif kind == "retime":
                if op["via"] == "cadence":
                    lead = stg.Frame(fchans=fr.fchans, tchans=fr.tchans, df=fr.df, dt=fr.dt, fch1=fr.fch1, ascending=fr.ascending,
                                     t_start=fr.t_start - 1000.0, seed=1)
                    stg.Cadence([lead, fr], t_slew=op["slew"], t_overwrite=True)
                    ctx.check(abs(fr.t_start - (lead.t_stop + op["slew"])) <= 1e-6, "retime", "C03/retime/cadence_did_not_set_start", "")
                else:
                    fr.t_start = fr.t_start + op["slew"] + 1.0
                h.append("retimed")
                ctx.hit("retimed_after_history" if [x for x in h if x in ("wf", "saved", "copy", "loaded")] else "retimed")
            elif kind == "failed_save":
                from ..core import InjectedInterrupt
                pth = ctx.seams.path("x%d.%s" % (j, "fil" if op["call"] == "save_fil" else "h5"))
                call = (lambda: fr.get_waterfall()) if op["call"] == "get_waterfall" else (lambda: getattr(fr, op["call"])(pth))
                before = F.state_digest(fr)
                old_data, old_t = fr.data, fr.t_start
                tracer = None
                try:
                    if op["how"] == "bad_tstart":
                        fr.t_start = "2021-03-04T00:00:00"
                    elif op["how"] == "bad_data":
                        fr.data = fr.data[0]
                    else:
                        tracer = ctx.seams.interrupt_at(["frame.py:_update_waterfall", "frame.py:get_waterfall", "frame.py:save_fil",
                                                         "frame.py:save_hdf5"], op["at"])
                    try:
                        call()
                        failed = False
                    finally:
                        if tracer is not None:
                            ctx.seams.stop_trace()
                except InjectedInterrupt:
                    failed = True
                except Exception:
                    failed = True
                    if tracer is not None:
                        raise
                finally:
                    fr.data, fr.t_start = old_data, old_t
                if failed:
                    ctx.fired("interrupt" if tracer is not None else "rejected_save")
                    h.append("failedsave")
                    ctx.hit("save_failed_then_frame_used_again")
                    ctx.check(F.state_digest(fr) == before, "save", "C03/save/frame_modified_by_failed_save",
                              "a save that did not complete changed the frame's own state")
                elif op["call"] == "get_waterfall":
                    h.append("wf")
            elif kind == "save":
                fmt = op["fmt"]
                ext = "fil" if fmt == "fil" else "h5"
                path = ctx.seams.path("s%d.%s" % (j, ext))
                if op.get("overwrite") and last_path.get(ext):
                    path = last_path[ext]            # save over a file written earlier (possibly by another frame)
                    ctx.hit("saved_over_existing_file")
                last_path[ext] = path
                before = F.state_digest(fr)
                if fmt == "fil":
                    fr.save_fil(path)
                    ctx.hit("format_fil")
                elif fmt == "h5":
                    fr.save_hdf5(path)
                    ctx.hit("format_h5")
                else:
                    fr.save_h5(path)
                    ctx.hit("format_h5")
                ctx.check(F.state_digest(fr) == before, "save", "C03/save/frame_modified_by_save", "saving changed the frame's own state")
                hcls = "+".join(sorted(set(h))) or "fresh"
                ctx.hit("ascending" if fr.ascending else "descending")
                for tag, probe in (("parent_loaded", "derived_of_loaded_frame_saved"), ("parent_wf", "derived_after_get_waterfall_saved"),
                                   ("copy", "copy_saved"), ("pickle", "pickled_saved"), ("slice", "sliced_saved"), ("dedrift", "dedrifted_saved")):
                    if tag in h:
                        ctx.hit(probe)
                if "loaded" in h:
                    ctx.hit("loaded_resaved")
                loaded = judge_roundtrip(ctx, fr, path, fmt, hcls, op.get("load_form", "str"))
                nsave += 1
                saved_classes.add((fmt.replace("h5b", "h5"), bool(fr.ascending), hcls))
                if h:
                    ctx.nontrivial = True
                h.append("saved")
                if loaded is not None:
                    pool.append(loaded)
                    hist[id(loaded)] = ["loaded"]
                if loaded is not None and op.get("shared_wf") and fmt != "h5b":
                    # ON and OFF built on one and the same blimpy Waterfall object (Frame keeps it by reference), given
                    # different start times; saved alternately
                    from blimpy import Waterfall
                    wfo = Waterfall(path)
                    on = stg.Frame(waterfall=wfo)
                    off = stg.Frame(waterfall=wfo)
                    off.t_start = off.t_start + 110.0
                    ctx.hit("two_frames_share_one_waterfall_object")
                    for k, (nm, f2) in enumerate((("on", on), ("off", off), ("on", on))):
                        ext2 = "fil" if (op["shared_wf"] + k) % 2 else "h5"
                        p2 = ctx.seams.path("w%d_%d.%s" % (j, k, ext2))
                        (f2.save_fil if ext2 == "fil" else f2.save_hdf5)(p2)
                        if judge_roundtrip(ctx, f2, p2, ext2, "sharedwf_" + nm + ("_again" if k == 2 else ""), "str") is None:
                            break
                        if ctx.violations and ctx.stop_on_violation:
                            return
                    pool.extend([on, off])
                    hist[id(on)] = ["loaded", "sharedwf"]
                    hist[id(off)] = ["loaded", "sharedwf", "retimed"]
                if loaded is not None and op.get("partial") and fr.tchans >= 4 and fmt != "h5b":
                    # one more way a frame is obtained: from a blimpy Waterfall opened on part of the file (a time
                    # selection that does not start at the first integration).  The part is a frame like any other
                    from blimpy import Waterfall
                    a = 1 + op["partial"] % (fr.tchans - 3)
                    b = fr.tchans
                    part = stg.Frame(waterfall=Waterfall(path, t_start=a, t_stop=b))
                    ctx.hit("frame_from_time_selected_waterfall")
                    ctx.event("partial", part.data)
                    if ctx.check(part.data.shape == (b - a, fr.fchans) and np.array_equal(
                            np.asarray(part.data, dtype=np.float32), fr.data.astype(np.float32)[a:b]), "data",
                            "C03/partial_load/rows_differ", lambda: "shape %s, want rows %d..%d" % (part.data.shape, a, b)):
                        pool.append(part)
                        hist[id(part)] = ["loaded", "timesel"]
        except (Exception, SystemExit) as e:
            from ..worlds.raw import innermost_setigen_frame
            ctx.violation("op", "C03/%s/raises:%s@%s/%s" % (kind + (":" + op["fmt"].replace("h5b", "h5") if kind == "save" else ""),
                                                           type(e).__name__, innermost_setigen_frame(e),
                                                           "+".join(sorted(set(h))) or "fresh"), repr(e))
            return
        if ctx.violations and ctx.stop_on_violation:
            return
    ctx.sim_time += root.tchans * root.dt
    ctx.fingerprint = [spec["route"], len(sc.get("siblings", [])), sorted(saved_classes, key=str)]
