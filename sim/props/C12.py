"""C12 — determinism from seeds, history independence, copy isolation.

The property this technique is made for; the check is *differential between
executions*.  This module is the coordinator: it runs inside a forked child,
never calls setigen itself, and forks sub-children (sim/props/C12prog.py) that
execute the same program under different seams, or with and without a prefix
history, and compares their event logs.

 1 twin        same program, every randomness source seeded; seams differ in
               clock origin/jitter, entropy salt (+ numpy legacy state), directory
               listing order and scratch path -> all observables identical
 2 history     target ops alone vs after a generated prefix in the same process
               (default-argument recordings, user dictionaries, array before single
               antenna, aborted recordings, frame activity) -> identical
 3 reuse       the same backend records twice vs a fresh backend on a same-seed
               antenna advanced by replaying the exact request log -> identical
 4 user dict   one dictionary passed to two record calls vs a fresh equal one
 5 copy/pickle equality and mutation isolation, different seeds differ: within-run
               oracles of the program executor
"""
import copy
import json

from .. import pool
from ..core import gen_seed
from ..worlds import frame as F
from ..worlds import raw as W
from . import C12prog

ID = "C12"
WORLD = "all"
LEVEL = "exploration"
INSTALL_SEAMS = False
EST_RUN_S = 0.5
RULE = ("scenario = one of five differential experiments (twin frame program, twin voltage program, history prefix, backend "
        "reuse, caller dictionary) over generated cross-world programs in which every randomness source is seeded: frames by "
        "every construction route incl. loaded .fil/.h5, noise of all kinds, observation-table noise, stateful RFI paths and "
        "pulse profiles, copies, pickles, slices, de-drifts, saves; antennas/arrays, stream requests, recordings with default / "
        "explicit / shared header dictionaries, array before single antenna, aborted recordings, injection onto existing RAW "
        "with a seeded channelised-noise estimate; each experiment runs 2-7 forked sub-children; non-trivial = both executions "
        "completed and were compared event by event; distinct = abstract fingerprint (experiment, op kinds, header kinds, fault kinds)")
COMPONENTS = {"real": ["all of /repo/setigen reached by the programs", "blimpy/h5py file I/O", "numpy Generators"],
              "stub": ["SimClock", "entropy seam (unseeded default_rng calls are counted and salted)", "glob seam", "scratch path seam",
                       "open() wrapper for aborted recordings"]}
ASSUMPTIONS = ["observables are returned arrays, frame attributes, RAW file bytes, .fil bytes and .h5 datasets/attributes (not raw HDF5 bytes)",
               "programs never rely on OS entropy: an unseeded draw that changes an observable is reported with its call site"]
PROBES = ["twin_frame_compared", "twin_raw_compared", "history_compared", "reuse_compared", "user_dict_compared",
          "reuse_after_failed_recording", "reuse_from_data", "estimate_seeded_on_template", "reuse_not_compared_interrupt_inside_source_request",
          "copy_of_load_fil", "copy_of_sizes", "record_default_header", "record_shared_header", "aborted_recording_in_history",
          "array_then_single", "from_data_seeded_estimate", "copy_of_load_h5", "copy_of_derived", "hashseed_program_compared", "near_twin_prefix",
          "frame_from_consolidated_cadence", "copy_of_consolidated", "reuse_with_num_subblocks_reassigned",
          "seeded_estimate_over_more_than_2**24_samples"]

SEAM_KEYS = {"clock": ["clock_origin", "clock_jitter_seed"], "entropy": ["entropy_salt"], "listing": ["listing"], "scratch": ["scratch"],
             "cwd": ["chdir"]}


# ---------------------------------------------------------------------------
# program generation

def gen_frame_program(rng, n_ops=None, stateful=True):
    prog = []
    nroots = rng.choice([1, 1, 2, 3])
    geom = F.gen_geom(rng)
    geom["fchans"] = max(geom["fchans"], 8)
    geom["tchans"] = max(geom["tchans"], 3)
    # SCALE: a survey-sized frame (estimators that subsample or work block-wise beyond some size must stay seeded)
    huge = n_ops is None and rng.random() < 0.04
    if huge:
        geom["tchans"], geom["fchans"] = rng.choice([(32, 65536), (20, 100000), (17, 131072), (300, 4096)])
        nroots = 1
    nid = 0
    for _ in range(nroots):
        g = geom if (huge or rng.random() < 0.8) else F.gen_geom(rng)
        g["tchans"] = max(g["tchans"], 3)
        g["fchans"] = max(g["fchans"], 8)
        spec = F.gen_frame_spec(rng, g)
        if huge:
            spec["route"] = rng.choice(["data", "from_data", "sizes"])
        prog.append({"op": "f_create", "id": nid, "spec": spec, "marker": rng.random() < 0.5})
        nid += 1
    for _ in range(n_ops if n_ops is not None else (rng.randint(2, 10) if not huge else rng.randint(2, 4))):
        fid = rng.randrange(nid)
        r = rng.random()
        if huge:
            r = rng.choice([0.1, 0.1, 0.1, 0.3, 0.45, 0.93])       # noise, noise, noise, inject, copy, meta
        if r < 0.16:
            prog.append({"op": "f_noise", "id": fid, "kind": rng.choice(["chi2", "gaussian", "truncated"]), "x_mean": rng.choice([10.0, 5.5]),
                         "x_std": rng.choice([1.0, 3.0]), "x_min": rng.choice([0.0, 9.0])})
        elif r < 0.22:
            prog.append({"op": "f_obs", "id": fid, "kind": rng.choice(["chi2", "gaussian"]), "share": rng.random() < 0.7})
        elif r < 0.38:
            prog.append({"op": "f_inject", "id": fid, "sig": F.gen_signal(rng, geom, stateful=stateful)})
        elif r < 0.50:
            prog.append({"op": "f_copy", "id": fid, "new": nid})
            nid += 1
        elif r < 0.56:
            prog.append({"op": "f_pickle", "id": fid, "new": nid})
            nid += 1
        elif r < 0.64:
            a, b = sorted([rng.random(), rng.random()])
            prog.append({"op": "f_slice", "id": fid, "new": nid, "a": a, "b": b})
            nid += 1
        elif r < 0.70:
            prog.append({"op": "f_dedrift", "id": fid, "new": nid, "px": rng.choice([0.3, 1.0, -1.0])})
            nid += 1
        elif r < 0.75:
            prog.append({"op": "f_integrate", "id": fid, "new": nid, "axis": rng.choice(["t", "f"]), "mode": rng.choice(["mean", "sum"])})
            nid += 1
        elif r < 0.88:
            op = {"op": "f_save", "id": fid, "fmt": rng.choice(["fil", "h5"]), "seed": rng.randrange(1 << 30)}
            if rng.random() < 0.7:
                op["load_as"] = nid
                nid += 1
            prog.append(op)
        elif r < 0.91:
            prog.append({"op": "f_zero", "id": fid})
        elif r < 0.94:
            prog.append({"op": "f_meta", "id": fid, "n": rng.randrange(1000)})
        elif r < 0.955:
            # another construction route: the frames of a cadence concatenated into one (absolute, gapped time axis)
            prog.append({"op": "f_consolidate", "ids": [rng.randrange(nid) for _ in range(rng.choice([1, 2, 3]))], "new": nid,
                         "seed": rng.randrange(1 << 30)})
            nid += 1
        elif r < 0.97:
            prog.append({"op": "cad_inject", "ids": [rng.randrange(nid) for _ in range(rng.choice([1, 2, 3]))],
                         "sig": F.gen_signal(rng, geom, stateful=False)})
        else:
            prog.append({"op": "f_differ", "geom": geom, "seed_a": rng.randrange(1 << 30), "seed_b": rng.randrange(1 << 30)})
    # annotate copies with the route of their source (for reach probes)
    routes = {}
    for op in prog:
        if op["op"] == "f_create":
            routes[op["id"]] = op["spec"]["route"]
        elif op["op"] in ("f_copy", "f_pickle"):
            op["route"] = routes.get(op["id"], "derived")
            routes[op["new"]] = op["route"]
        elif op["op"] == "f_save" and op.get("load_as") is not None:
            routes[op["load_as"]] = "load_" + op["fmt"]
        elif op["op"] == "f_consolidate":
            routes[op["new"]] = "consolidated"
        elif "new" in op:
            routes[op["new"]] = "derived"
    return prog


_SHARED = {}


def gen_header(rng, ns="", pool=None):
    """pool: name -> cards of the caller dictionaries already in play (one name, one dictionary)."""
    if pool is None:
        pool = {}
    r = rng.random()
    if r < 0.35:
        return {"kind": "default"}
    cards = {}
    for i in range(rng.choice([0, 1, 3])):
        cards["K%02d" % i] = rng.choice([1, 2.5, "x"])
    if rng.random() < 0.4:
        cards["DIRECTIO"] = rng.choice([0, 1])
    if rng.random() < 0.2:
        cards["PKTIDX"] = rng.choice([0, 1000])
    if r < 0.55:
        name = "%sD%d" % (ns, rng.randrange(2))
        cards = pool.setdefault(name, cards)
        return {"kind": "shared", "name": name, "cards": copy.deepcopy(cards)}
    return {"kind": "user", "cards": cards}


def gen_raw_setup(rng, tier, array=None):
    ant = W.gen_antenna(rng, array=array)
    el = W.gen_elements(rng, tier)
    el["T"] = rng.choice([1, 2, 4])
    el["B"] = rng.choice([4, 8, 16])
    be = W.gen_backend(rng, ant, el)
    return ant, el, be


def gen_raw_program(rng, tier, ids_from=0, stem_prefix="r", with_fault=False, from_data=True, array=None, p_from_data=0.4):
    prog = []
    ant, el, be = gen_raw_setup(rng, tier, array)
    bid = ids_from
    prog.append({"op": "r_build", "id": bid, "ant": ant, "el": el, "be": be})
    if rng.random() < 0.5:
        prog.append({"op": "s_get", "id": bid, "n": rng.choice([64, 100, 256]), "check_differ": True, "ant_spec": ant})
    nrec = rng.choice([1, 1, 2])
    hpool = {}
    for k in range(nrec):
        op = {"op": "r_record", "id": bid, "stem": "%s%d_%d" % (stem_prefix, bid, k), "num_blocks": rng.choice([1, 2, 3, 5]),
              "header": gen_header(rng, "%s%d" % (stem_prefix, bid), hpool), "digitize": rng.random() < 0.7, "template": rng.random() < 0.3}
        if with_fault and rng.random() < 0.4:
            op["fault"] = rng.choice([{"kind": "enospc", "at": rng.randint(1, 30)}, {"kind": "source", "at": rng.randint(1, 3)}])
        prog.append(op)
    if from_data and rng.random() < p_from_data:
        # inject onto the first recording with a seeded channelised-noise estimate
        first = [o for o in prog if o["op"] == "r_record" and not o.get("fault")]
        if first:
            src = first[0]
            ant2 = dict(copy.deepcopy(ant), seed=rng.randrange(1 << 30))
            prog.append({"op": "r_from_data", "id": bid + 1, "ant": ant2, "el": el, "be": be, "in_stem": src["stem"],
                         "num_subblocks": rng.randint(1, be["W"] + 2), "listing": rng.choice(["sorted", "reverse", 7])})
            if rng.random() < 0.4:
                prog[-1]["template_estimate"] = {"seed": gen_seed(rng), "factor": rng.choice([50, 200])}
            else:
                prog.append({"op": "r_estimate", "id": bid + 1, "seed": gen_seed(rng), "factor": rng.choice([50, 200])})
            prog.append({"op": "r_record", "id": bid + 1, "stem": "%sinj%d" % (stem_prefix, bid), "num_blocks": rng.choice([1, 2, 9]),
                         "header": {"kind": "user", "cards": {}}, "digitize": rng.random() < 0.6, "template": rng.random() < 0.5})
    return prog, (ant, el, be)


def near_twin(rng, R):
    T = copy.deepcopy(R)
    what = rng.choice(["window", "seed", "resolution", "source_name", "nothing"])
    for o in T:
        for k in ("id", "new", "load_as", "src", "dst"):
            if k in o and o[k] is not None:
                o[k] += 300
        if "ids" in o:
            o["ids"] = [i + 300 for i in o["ids"]]
        for k in ("stem", "in_stem"):
            if k in o:
                o[k] = "nt_" + o[k]
        if o["op"] == "r_record" and o["header"].get("kind") == "shared":
            o["header"]["name"] = "nt_" + o["header"]["name"]
        if "el" in o and what == "window":
            o["el"]["window"] = {"hamming": "hann", "hann": "blackman", "blackman": "boxcar", "boxcar": "hamming"}[o["el"]["window"]]
        if "ant" in o and what == "seed":
            o["ant"]["seed"] = (o["ant"]["seed"] + 1) % (1 << 30)
        if o["op"] == "f_create":
            sp = o["spec"]
            if what == "resolution":
                sp["geom"]["dt"] = sp["geom"]["dt"] * 2.0
            elif what == "source_name":
                sp["source_name"] = "NEAR_TWIN"
            elif what == "seed":
                sp["seed"] = (sp["seed"] + 1) % (1 << 30)
    return T


def generate(rng, tier):
    mode = rng.choice(["twin_frame", "twin_frame", "twin_raw", "twin_raw", "history", "history", "history", "reuse", "user_dict"])
    sc = {"mode": mode, "return_events": False,
          "seams": {"clock_origin": 1.7e9 + rng.randrange(10 ** 6), "clock_jitter_seed": rng.randrange(1 << 20),
                    "entropy_salt": rng.randrange(1 << 20), "scratch": "c12a", "listing": "sorted"},
          "seams_b": {"clock_origin": 1.2e9 + rng.randrange(10 ** 8), "clock_jitter_seed": rng.randrange(1 << 20),
                      "entropy_salt": rng.randrange(1 << 20), "scratch": "zz-other-%d" % rng.randrange(1000),
                      "listing": rng.choice(["reverse", rng.randrange(1, 1 << 16)]), "chdir": True}}
    if mode == "twin_frame":
        sc["ops"] = gen_frame_program(rng)
    elif mode == "twin_raw":
        sc["ops"], _ = gen_raw_program(rng, tier)
        if rng.random() < 0.3:
            more, _ = gen_raw_program(rng, tier, ids_from=10, stem_prefix="q")
            sc["ops"] += more
        r = rng.random()
        if r < 0.2:
            # a seeded channelised-noise estimate on a filterbank of the user's own (not the tiny ones of the RAW world)
            sc["ops"].insert(rng.randrange(len(sc["ops"]) + 1),
                             {"op": "pfb_estimate", "T": rng.choice([2, 4, 8]), "B": rng.choice([64, 256, 1024]),
                              "factor": rng.choice([100, 1000]), "seed": gen_seed(rng)})
        elif r < (0.26 if tier == "quick" else 0.35):
            # SCALE: ... and of production size: more than 2**24 samples drawn for the estimate (chunked estimators that
            # only engage beyond some size must carry the seed through)
            T_, B_, f_ = rng.choice([(4, 8192, 2100), (4, 4096, 4200), (8, 2048, 8300), (4, 16384, 1100)])
            sc["ops"].insert(rng.randrange(len(sc["ops"]) + 1), {"op": "pfb_estimate", "T": T_, "B": B_, "factor": f_, "seed": gen_seed(rng)})
    elif mode == "history":
        # prefix history H, then target R built from seeds after H
        H = []
        for _ in range(rng.choice([1, 1, 2, 3])):
            r = rng.random()
            if r < 0.7:
                p, _ = gen_raw_program(rng, tier, ids_from=20 + 2 * len(H), stem_prefix="h%d" % len(H), with_fault=True,
                                       from_data=rng.random() < 0.3, array=rng.random() < 0.5)
                H += p
            elif r < 0.9:
                H += gen_frame_program(rng, n_ops=rng.randint(1, 4))
            else:
                H.append({"op": "np_legacy_seed", "seed": rng.randrange(1 << 30)})
        if rng.random() < 0.5:
            R, _ = gen_raw_program(rng, tier, ids_from=0, stem_prefix="t", array=rng.random() < 0.3)
            # the statement names default-argument recordings explicitly: make them common in the target
            for o in R:
                if o["op"] == "r_record" and rng.random() < 0.5:
                    o["header"] = {"kind": "default"}
        else:
            R = gen_frame_program(rng, n_ops=rng.randint(2, 6))
            for o in R:          # keep frame ids of H and R apart
                for k in ("id", "new", "load_as"):
                    if k in o and o[k] is not None:
                        o[k] += 100
                if "ids" in o:
                    o["ids"] = [i + 100 for i in o["ids"]]
        if rng.random() < 0.4:
            # near-twin prefix: the target program itself, run earlier in the same process on its own objects with ONE
            # environmental parameter changed (window, seed, resolution, source name).  Anything memoised in process-global
            # state under too coarse a key is then handed to the target.
            H = H + near_twin(rng, R)
            sc["near_twin_prefix"] = True
        sc["ops"] = H
        sc["target"] = R
    elif mode == "reuse":
        ant, el, be = gen_raw_setup(rng, tier)
        hpool = {}
        h1 = gen_header(rng, "", hpool)
        h2 = gen_header(rng, "", hpool)
        n1, n2 = rng.choice([1, 2, 3]), rng.choice([1, 2, 4])
        d = rng.random() < 0.7
        fresh_h2 = copy.deepcopy(h2)
        if fresh_h2["kind"] == "shared":
            fresh_h2 = {"kind": "user", "cards": fresh_h2["cards"]}
        first = {"op": "r_record", "id": 0, "stem": "a1", "num_blocks": n1, "header": h1, "digitize": d}
        if rng.random() < 0.45:
            # the first recording dies part-way (full disk, failing source, interrupt): the reused backend must still
            # make the recording a fresh one would
            first["fault"] = rng.choice([{"kind": "enospc", "at": rng.randint(1, 12)}, {"kind": "eio", "at": rng.randint(1, 12)},
                                         {"kind": "source", "at": rng.randint(1, 3)}, {"kind": "open", "at": rng.randint(1, 2)},
                                         {"kind": "interrupt", "at": rng.randint(1, 400)}])
            sc["first_faulted"] = first["fault"]["kind"]
        if rng.random() < 0.4:
            # both backends inject onto the same input recording
            ant0 = dict(copy.deepcopy(ant), seed=rng.randrange(1 << 30))
            nsb = rng.randint(1, be["W"] + 2)
            pre = [{"op": "r_build", "id": 5, "ant": ant0, "el": el, "be": be},
                   {"op": "r_record", "id": 5, "stem": "in", "num_blocks": rng.choice([2, 3, 5]), "header": {"kind": "user", "cards": {}},
                    "digitize": True}]
            mk = lambda i: {"op": "r_from_data", "id": i, "ant": ant, "el": el, "be": be, "in_stem": "in", "num_subblocks": nsb,
                            "listing": "sorted"}
            sc["from_data"] = True
            # the channelised-noise estimate is a randomness source: seeded, identically for both backends
            es, ef = rng.randrange(1 << 30), rng.choice([50, 200])
            est = lambda i: [{"op": "r_estimate", "id": i, "seed": es, "factor": ef}]
        else:
            pre = []
            mk = lambda i: {"op": "r_build", "id": i, "ant": ant, "el": el, "be": be}
            est = lambda i: []
        setsub = []
        mk1 = mk(1)
        if rng.random() < 0.3:
            # the reused backend has its num_subblocks re-assigned between the recordings; the fresh one is built with it
            k = rng.randint(1, be["W"] + 2)
            setsub = [{"op": "r_set_subblocks", "id": 0, "n": k}]
            mk1 = copy.deepcopy(mk1)
            if "num_subblocks" in mk1:
                mk1["num_subblocks"] = k
            else:
                mk1["be"] = dict(mk1["be"], num_subblocks=k)
            sc["set_subblocks"] = True
        sc["ops"] = pre + [mk(0)] + est(0) + [
                           first] + setsub + [
                           {"op": "r_record", "id": 0, "stem": "a2", "num_blocks": n2, "header": h2, "digitize": d, "tag": "A"},
                           mk1] + est(1) + [
                           {"op": "r_replay_requests", "src": 0, "dst": 1, "upto_record": 1},
                           {"op": "r_record", "id": 1, "stem": "b2", "num_blocks": n2, "header": fresh_h2, "digitize": d, "tag": "B"}]
        sc["h2_kind"] = h2["kind"] + ("=h1" if h2["kind"] == "shared" and h1.get("name") == h2.get("name") else "")
        sc["fixed_ops"] = True
    else:
        ant, el, be = gen_raw_setup(rng, tier)
        cards = gen_header(rng).get("cards", {})
        n1, n2 = rng.choice([1, 2, 3]), rng.choice([1, 2, 3])
        sc["ops"] = [{"op": "r_build", "id": 0, "ant": ant, "el": el, "be": be},
                     {"op": "r_record", "id": 0, "stem": "a1", "num_blocks": n1, "header": {"kind": "shared", "name": "D", "cards": cards}},
                     {"op": "r_record", "id": 0, "stem": "a2", "num_blocks": n2, "header": {"kind": "shared", "name": "D", "cards": cards}, "tag": "A"},
                     {"op": "r_build", "id": 1, "ant": ant, "el": el, "be": be},
                     {"op": "r_record", "id": 1, "stem": "b1", "num_blocks": n1, "header": {"kind": "user", "cards": cards}},
                     {"op": "r_record", "id": 1, "stem": "b2", "num_blocks": n2, "header": {"kind": "user", "cards": cards}, "tag": "B"}]
        sc["fixed_ops"] = True
    return sc


def enumerated(tier):
    """Hash-seed experiment: batches of programs executed here (forked, PYTHONHASHSEED of this interpreter) and in ONE fresh
    interpreter started under another PYTHONHASHSEED.  Process-global hash randomisation is exactly the kind of hidden
    input "two runs that build the same objects with the same seeds" must not depend on; forked children share it, so
    only a separately started interpreter can vary it.  One interpreter start (about 5 s) is amortised over a batch."""
    import random
    out = []
    nb, per = (2, 10) if tier == "quick" else (6, 24)
    for b in range(nb):
        rng = random.Random(7700 + b)
        programs = []
        for k in range(per):
            r = rng.random()
            if r < 0.55:
                pr, _ = gen_raw_program(rng, tier, stem_prefix="e%d_" % k, p_from_data=0.9, array=rng.random() < 0.4)
            elif r < 0.9:
                pr = gen_frame_program(rng, n_ops=rng.randint(3, 8))
            else:
                pr, _ = gen_raw_program(rng, tier, stem_prefix="e%d_" % k, from_data=False)
            programs.append(pr)
        out.append({"mode": "hashseed", "hashseed": 101 + 977 * b, "programs": programs, "ops": [], "fixed_ops": True,
                    "seams": {"clock_origin": 1.7e9, "clock_jitter_seed": 5 + b, "entropy_salt": 11 + b, "scratch": "c12h", "listing": "sorted"}})
    return out


def run_batch_fresh_interpreter(programs, seams, hashseed):
    """Execute the programs in a separately started interpreter; returns their event lists."""
    import os
    import subprocess
    import sys
    import tempfile
    base = "/dev/shm" if os.path.isdir("/dev/shm") else tempfile.gettempdir()
    fd, path = tempfile.mkstemp(prefix="vf-c12batch-", suffix=".json", dir=base)
    try:
        with os.fdopen(fd, "w") as f:
            json.dump({"programs": programs, "seams": seams}, f)
        env = dict(os.environ, PYTHONHASHSEED=str(hashseed), _VERIF_REEXEC="1")
        here = os.path.dirname(os.path.dirname(os.path.dirname(os.path.abspath(__file__))))
        p = subprocess.run([sys.executable, "-W", "ignore", os.path.join(here, "run_check.py"), "--c12-batch", path], env=env,
                           capture_output=True, text=True, timeout=900)
        line = [l for l in p.stdout.splitlines() if l.startswith("C12BATCH ")]
        if not line:
            raise RuntimeError("fresh interpreter produced no result: " + (p.stderr or p.stdout)[-1500:])
        return json.loads(line[-1][9:])
    finally:
        try:
            os.remove(path)
        except OSError:
            pass


def batch_main(path):
    """Entry used by the fresh interpreter (run_check.py --c12-batch <file>)."""
    with open(path) as f:
        doc = json.load(f)
    out = []
    for pr in doc["programs"]:
        res = pool.run_child(C12prog, {"program": pr, "seams": dict(doc["seams"]), "return_events": True})
        out.append({"events": res.get("events"), "violations": res.get("violations", []), "harness_error": res.get("harness_error")})
    print("C12BATCH " + json.dumps(out), flush=True)
    return 0


def simplify(sc):
    # programs shrink through the generic op removal; here: simpler headers, fewer blocks, no faults, plain seams
    if sc["mode"] == "hashseed":
        if len(sc["programs"]) > 1:
            for i in range(len(sc["programs"])):
                c = copy.deepcopy(sc)
                c["programs"] = [sc["programs"][i]]
                yield c
        else:
            pr = sc["programs"][0]
            for i in range(len(pr)):
                c = copy.deepcopy(sc)
                del c["programs"][0][i]
                if c["programs"][0]:
                    yield c
        return
    if sc.get("fixed_ops"):
        # paired experiments: only changes applied to both executions alike
        recs = [j for j, o in enumerate(sc["ops"]) if o["op"] == "r_record"]
        pairs = [(recs[0], recs[-2])] if sc["mode"] == "user_dict" else []
        pairs.append((recs[-3] if sc["mode"] == "user_dict" else recs[1], recs[-1]))
        for a, b in pairs:
            if sc["ops"][a]["num_blocks"] > 1:
                c = copy.deepcopy(sc)
                c["ops"][a]["num_blocks"] = c["ops"][b]["num_blocks"] = 1
                yield c
        for key in ("ant", "el", "be"):
            pass
        return
    for key in ("ops", "target"):
        for j, op in enumerate(sc.get(key, [])):
            if op.get("fault"):
                c = copy.deepcopy(sc)
                c[key][j]["fault"] = None
                yield c
            if op.get("num_blocks", 1) > 1:
                c = copy.deepcopy(sc)
                c[key][j]["num_blocks"] = 1
                yield c
            if op["op"] == "r_record" and op["header"].get("cards"):
                c = copy.deepcopy(sc)
                c[key][j]["header"]["cards"] = {}
                yield c
            if op.get("template"):
                c = copy.deepcopy(sc)
                c[key][j]["template"] = False
                yield c
    if sc["mode"] == "history" and len(sc.get("target", [])) > 1:
        for i in range(len(sc["target"])):
            c = copy.deepcopy(sc)
            del c["target"][i]
            yield c


# ---------------------------------------------------------------------------

def _run(program, seams, ctx):
    sub = {"program": program, "seams": dict(seams), "return_events": True}
    res = pool.run_child(C12prog, sub)
    if res.get("harness_error"):
        raise RuntimeError("sub-child failed: " + res["harness_error"])
    for k, v in res.get("reach", {}).items():
        ctx.hit(k, v)
    for k, v in res.get("faults", {}).items():
        ctx.fired(k, v)
    ctx.checks += res.get("checks", 0)
    for site in res.get("unseeded", []):
        ctx.hit("unseeded_draw@" + site)
    return res


def _first_diff(ea, eb):
    for i, (a, b) in enumerate(zip(ea, eb)):
        if a[1] != b[1] or a[2] != b[2]:
            return i, a[1], b[1]
    if len(ea) != len(eb):
        i = min(len(ea), len(eb))
        return i, (ea[i][1] if i < len(ea) else "<end>"), (eb[i][1] if i < len(eb) else "<end>")
    return None


def _sub_violations(ctx, res):
    found = False
    for v in res.get("violations", []):
        ctx.violations.append(v)
        found = True
    return found


def execute(sc, ctx):
    mode = sc["mode"]
    if mode == "hashseed":
        import os
        here_seed = os.environ.get("PYTHONHASHSEED", "random")
        local = [_run(pr, sc["seams"], ctx) for pr in sc["programs"]]
        for r in local:
            if _sub_violations(ctx, r):
                return
        fresh = run_batch_fresh_interpreter(sc["programs"], sc["seams"], sc["hashseed"])
        ctx.fired("fresh_interpreter_other_hash_seed")
        ctx.nontrivial = True
        for k, (a, b) in enumerate(zip(local, fresh)):
            if b.get("harness_error"):
                raise RuntimeError("fresh interpreter sub-child failed: " + b["harness_error"])
            ctx.hit("hashseed_program_compared")
            d = _first_diff(a["events"], b["events"])
            ctx.event("hashseed", a["digest"])
            if d is not None:
                ctx.violation("hashseed", "C12/twin/%s/depends_on_hash_seed" % d[1],
                              "program %d: event %d (%s) differs between this interpreter (PYTHONHASHSEED=%s) and a fresh one "
                              "(PYTHONHASHSEED=%s) executing the same seeded program under the same seams" % (k, d[0], d[1], here_seed, sc["hashseed"]))
                return
        ctx.fingerprint = ["hashseed", len(sc["programs"]), sc["hashseed"]]
        return
    if mode in ("twin_frame", "twin_raw"):
        a = _run(sc["ops"], sc["seams"], ctx)
        if _sub_violations(ctx, a):
            return
        b = _run(sc["ops"], sc["seams_b"], ctx)
        if _sub_violations(ctx, b):
            return
        ctx.hit(mode + "_compared")
        ctx.nontrivial = len(a["events"]) >= 2
        ctx.event("twin", a["digest"], b["digest"])
        d = _first_diff(a["events"], b["events"])
        if d is not None:
            # which seam does the observable depend on?  vary one at a time
            blamed = []
            for name, keys in SEAM_KEYS.items():
                s = dict(sc["seams"])
                for k in keys:
                    s[k] = sc["seams_b"].get(k)
                c = _run(sc["ops"], s, ctx)
                if _first_diff(a["events"], c["events"]) is not None:
                    blamed.append(name)
            sites = sorted(set(a.get("unseeded", [])))
            ctx.violation("twin", "C12/twin/%s/depends_on_%s" % (d[1], "+".join(blamed) or "combination"),
                          "event %d (%s) differs between two executions of the same seeded program; unseeded draw sites: %s" % (
                              d[0], d[1], sites))
            return
    elif mode == "history":
        H, R = sc["ops"], sc["target"]
        a = _run(H + R, sc["seams"], ctx)
        b = _run(R, sc["seams"], ctx)
        if _sub_violations(ctx, b):
            return
        # a violation inside the prefix is not this experiment's subject unless it is in R's part
        nR = len(b["events"])
        ea = a["events"][-nR:] if nR and len(a["events"]) >= nR else a["events"]
        hv = [v for v in a.get("violations", [])]
        if hv and len(a["events"]) < nR + 1 and not H:
            _sub_violations(ctx, a)
            return
        if hv:
            # the prefix itself tripped an oracle or raised: the target never ran; nothing to compare
            ctx.hit("history_prefix_failed")
            ctx.event("history_prefix_failed", hv[0]["signature"])
            ctx.violations.append(dict(hv[0]))
            return
        ctx.hit("history_compared")
        if sc.get("near_twin_prefix"):
            ctx.hit("near_twin_prefix")
        kinds = [o["op"] + (":" + o["header"]["kind"] if o["op"] == "r_record" else "") for o in H]
        if any(o["op"] == "r_build" and o["ant"]["kind"] == "array" for o in H) and any(
                o["op"] == "r_build" and o["ant"]["kind"] == "single" for o in R):
            ctx.hit("array_then_single")
        if any(o["op"] == "r_estimate" for o in H + R):
            ctx.hit("from_data_seeded_estimate")
        ctx.nontrivial = nR >= 1 and len(H) >= 1
        ctx.event("history", b["digest"])
        d = _first_diff([(0, e[1], e[2]) for e in ea], [(0, e[1], e[2]) for e in b["events"]])
        if d is not None:
            # which prefix op alone is responsible?
            culprit = "combination"
            for i, o in enumerate(H):
                need = [o] if o["op"] not in ("r_record", "s_get", "r_estimate", "r_from_data", "r_replay_requests") else \
                    [p for p in H[:i] if p["op"] in ("r_build", "r_from_data") and p.get("id") == o.get("id")] + [o]
                c = _run(need + R, sc["seams"], ctx)
                ec = c["events"][-nR:] if len(c["events"]) >= nR else c["events"]
                if not c.get("violations") and _first_diff([(0, e[1], e[2]) for e in ec], [(0, e[1], e[2]) for e in b["events"]]) is not None:
                    culprit = kinds[i] + ("+fault" if o.get("fault") else "")
                    break
            tkind = d[1]
            tops = [o for o in R if o["op"] == tkind]
            hk = tops[0]["header"]["kind"] if tops and "header" in tops[0] else ""
            ctx.violation("history", "C12/history/%s%s/differs_after:%s" % (tkind, ":" + hk if hk else "", culprit),
                          "target event %d (%s) differs when the same process first executed %s" % (d[0], tkind, kinds))
            return
    else:
        a = _run(sc["ops"], sc["seams"], ctx)
        if _sub_violations(ctx, a):
            return
        ev = a["events"]
        recs = [e for e in ev if e[1].endswith("#A")] + [e for e in ev if e[1].endswith("#B")]
        ctx.hit("reuse_compared" if mode == "reuse" else "user_dict_compared")
        if sc.get("first_faulted") and a.get("reach", {}).get("aborted_recording_in_history"):
            ctx.hit("reuse_after_failed_recording")
        if sc.get("from_data"):
            ctx.hit("reuse_from_data")
        if sc.get("set_subblocks"):
            ctx.hit("reuse_with_num_subblocks_reassigned")
        ctx.nontrivial = len(recs) == 2
        ctx.event(mode, a["digest"])
        if mode == "reuse" and a.get("reach", {}).get("interrupt_inside_source_request"):
            # the first recording was interrupted inside antenna.get_samples: the streams are unevenly advanced and the
            # request log no longer describes the antenna's state, so no fresh backend can be put in "the same" state
            ctx.hit("reuse_not_compared_interrupt_inside_source_request")
        elif len(recs) == 2 and recs[0][2] != recs[1][2]:
            if mode == "reuse":
                ctx.violation("reuse", "C12/reuse_backend/second_recording_differs_from_fresh_backend/header=%s%s%s" % (
                    sc.get("h2_kind"), "/from_data" if sc.get("from_data") else "",
                    "/first_recording_failed:" + sc["first_faulted"] if sc.get("first_faulted") else ""),
                              "the second recording of a reused backend differs from the same recording made by a fresh backend "
                              "on a same-seed antenna advanced by the identical request log")
            else:
                ctx.violation("user_dict", "C12/user_dict/second_call_differs_from_fresh_equal_dict",
                              "a dictionary passed to two record() calls gives a different second recording than a fresh equal dictionary")
            return
    ops = sc["ops"] + sc.get("target", [])
    ctx.fingerprint = [mode, sorted({o["op"] for o in ops}),
                       sorted({o["header"]["kind"] for o in ops if o["op"] == "r_record"}),
                       sorted({o["fault"]["kind"] for o in ops if o.get("fault")}),
                       sorted({o["spec"]["route"] for o in ops if o["op"] == "f_create"})]
