"""C11 — synthetic noise has the requested distribution; SNR bookkeeping is consistent.

FRAME world (+ STREAM for the quadrature clause).  Two kinds of clause:
bookkeeping over histories (what the estimates are after the first / later
noise additions and zero_data; the returned array is exactly what was added;
table sampling) — decided op by op against a bookkeeping model — and
distributional claims, tested as the statement prescribes at analytically
derived 7-sigma bands on arrays of >= 16384 pixels.
"""
import copy
import math

import numpy as np

from ..seams import _REAL_DEFAULT_RNG
from ..worlds import frame as F

ID = "C11"
WORLD = "frame"
LEVEL = "exploration"
EST_RUN_S = 0.08
RULE = ("scenario = a frame (df*dt >= 1 incl. half-integers; small for bookkeeping, 64x256+ for moments; empty, preloaded or "
        "float32 from file) and a seeded sequence of add_noise(chi2|gaussian|truncated), add_noise_from_obs(tables with "
        "pairwise distinct entries or the shipped table, share_index on/off, with/without minima), zero_data, injections, "
        "copies, get_intensity/get_snr; plus a stream clause: sequences of add_noise on DataStreams, antennas and array "
        "backgrounds checked against the quadrature sum; oracle = bookkeeping model per op, 7-sigma moment bands; "
        "non-trivial = >= 2 noise ops or a moment test; distinct = abstract fingerprint")
COMPONENTS = {"real": ["setigen.frame (add_noise, add_noise_from_obs, zero_data, get_intensity, get_snr, noise estimates)",
                       "setigen.distributions", "setigen.sample_from_obs.sample_gaussian_params", "setigen.voltage.data_stream noise bookkeeping"],
              "stub": ["entropy seam (tripwire)", "SimClock"]}
ASSUMPTIONS = ["statistical clauses are judged at 7 sigma (two-sided 2.6e-12 per test) on >= 16384 pixels; smaller distribution errors pass",
               "a frame that holds signals but no noise yet may report either the parameters or a re-estimate",
               "own sigma-clipping (median centre, 3 sigma, 5 iterations) compared at 1e-9"]
PROBES = ["chi2_with_leftover_gaussian_arguments", "array_background_reestimated", "first_noise_on_empty", "later_noise_reestimated", "zero_data_then_noise", "table_share_index", "table_independent",
          "shipped_table", "truncated_floor_checked", "moment_test_chi2", "moment_test_gaussian", "half_integer_resolution",
          "stream_quadrature", "array_background_quadrature", "signal_before_noise", "preloaded_frame",
          "estimates_not_observed_after_op", "two_resolutions_in_one_process", "rejected_noise_call"]


def generate(rng, tier):
    big = rng.random() < (0.25 if tier == "quick" else 0.35)
    prod = rng.choice([1.0, 1.0, 2.0, 1.5, 2.5, 3.0, 7.0, 10.0, 51.0])
    dt = rng.choice([1.0, 18.253611008, 0.5, 2.0])
    df = prod / dt
    if big:
        shape = rng.choice([(64, 256), (32, 1024), (128, 128)] + ([(64, 1024)] if tier == "thorough" else []))
        if rng.random() < (0.16 if tier == "quick" else 0.3):
            # SCALE: survey-sized frames of more than 2**20 pixels whose row and column counts are not powers of two
            # (block-wise or chunked fast paths that only engage beyond some size, and their remainder handling)
            shape = rng.choice([(20, 65536), (6, 262144), (16, 100000), (301, 4096), (17, 131072), (33, 40000), (611, 4096)])
    else:
        shape = (rng.choice([1, 2, 4, 8]), rng.choice([4, 8, 16, 32]))
    route = rng.choice(["sizes", "sizes", "sizes", "data", "load_fil"]) if not big else "sizes"
    spec = {"route": route, "geom": {"fchans": shape[1], "tchans": shape[0], "df": df, "dt": dt, "fch1": 6e9, "ascending": rng.random() < 0.5},
            "seed": rng.randrange(1 << 30), "t_start": 0.0, "mjd": None, "source_name": None, "content_seed": rng.randrange(1 << 30)}
    if route != "sizes" and rng.random() < 0.3:
        # preloaded data with zero deviation and a non-zero mean (a featureless pedestal)
        spec["content"] = "constant"
        spec["content_value"] = rng.choice([7.25, 1.0, 1e4])
    ops = []
    for _ in range(rng.randint(1, 7) if not big else rng.randint(1, 3)):
        r = rng.random()
        if r < 0.4:
            kind = rng.choice(["chi2", "chi2", "gaussian", "normal", "truncated"])
            ops.append({"op": "noise", "kind": kind, "x_mean": rng.choice([1.0, 10.0, 5.5, 1e5, 0.01]),
                        "x_std": rng.choice([1.0, 0.5, 3.0, 250.0]), "x_min": rng.choice([0.0, 9.0, -1.0, 5.0]),
                        "observe": rng.random() < 0.6})
            if kind == "chi2" and rng.random() < 0.25:
                ops[-1]["chi2_extra"] = True
            if not big and kind in ("gaussian", "normal") and rng.random() < 0.15:
                # degenerate but valid parameters: a zero-deviation pedestal, or zero-mean noise
                if rng.random() < 0.6:
                    ops[-1]["x_std"] = 0.0
                else:
                    ops[-1]["x_mean"] = 0.0
        elif r < 0.62:
            n = rng.choice([1, 2, 3, 5, 8])
            ops.append({"op": "from_obs", "kind": rng.choice(["chi2", "gaussian", "gaussian"]), "n": n, "n_std": rng.choice([n, n, n + 2]),
                        "with_min": rng.random() < 0.5, "share": rng.random() < 0.6, "tseed": rng.randrange(1 << 30),
                        "shipped": rng.random() < 0.12, "observe": rng.random() < 0.6})
            if ops[-1]["kind"] == "gaussian" and not ops[-1]["shipped"] and rng.random() < 0.35:
                ops[-1]["tmode"] = "low"
        elif r < 0.66:
            # a call the library must reject (missing deviation, unknown noise type, unequal tables with index sharing)
            ops.append({"op": "reject_noise", "how": rng.choice(["no_std", "bad_type", "unequal_tables"]), "x_mean": rng.choice([5.0, 10.0])})
        elif r < 0.72:
            ops.append({"op": "zero", "observe": rng.random() < 0.5})
        elif r < 0.80:
            ops.append({"op": "inject", "sig": F.gen_signal(rng, spec["geom"], allow_box=True), "observe": rng.random() < 0.5})
        elif r < 0.86:
            ops.append({"op": "copy", "observe": rng.random() < 0.5})
        else:
            ops.append({"op": "snr", "s": rng.choice([1.0, 10.0, 30.0, 0.5, 1e3])})
    for op in ops:
        op["fr"] = rng.randrange(4)
    frame2 = None
    if not big and rng.random() < 0.45:
        # a second frame of another resolution alive in the same process
        prod2 = rng.choice([1.0, 2.0, 3.0, 7.0])
        dt2 = rng.choice([1.0, 18.253611008, 0.5, 2.0, 5.0, 1.4316557653333333])
        frame2 = {"route": "sizes", "geom": {"fchans": rng.choice([4, 8, 16]), "tchans": rng.choice([1, 2, 4]), "df": prod2 / dt2, "dt": dt2,
                                              "fch1": 6e9, "ascending": rng.random() < 0.5},
                  "seed": rng.randrange(1 << 30), "t_start": 0.0, "mjd": None, "source_name": None, "content_seed": rng.randrange(1 << 30)}
    streams = None
    if rng.random() < 0.5:
        n_ant = rng.choice([0, 0, 1, 2, 3])
        sops = []
        for _ in range(rng.randint(1, 6)):
            sops.append({"target": rng.choice(["x", "y", "bg_x", "bg_y"]), "ant": rng.randrange(max(n_ant, 1)),
                         "mean": rng.choice([0.0, 1.0]), "std": rng.choice([1.0, 0.5, 2.0, 3.0, 1e-3])})
            if n_ant and sops and rng.random() < 0.2:
                sops.append({"target": rng.choice(["bg_x", "bg_y", "bg_x", "x"]), "ant": rng.randrange(max(n_ant, 1)),
                             "update": rng.choice([100, 1000, 10000]), "mean": 0.0, "std": 0.0})
        streams = {"n_ant": n_ant, "pols": rng.choice([1, 2]), "ops": sops, "seed": rng.randrange(1 << 30)}
    return {"seams": {"clock_origin": 1.7e9, "clock_jitter_seed": rng.randrange(1 << 20), "entropy_salt": rng.randrange(1 << 20),
                      "scratch": "c11"},
            "frame": spec, "frame2": frame2, "ops": ops, "streams": streams, "big": big}


def simplify(sc):
    if sc["streams"] is not None:
        c = copy.deepcopy(sc)
        c["streams"] = None
        yield c
        if len(sc["streams"]["ops"]) > 1:
            for i in range(len(sc["streams"]["ops"])):
                c = copy.deepcopy(sc)
                del c["streams"]["ops"][i]
                yield c
    if sc["frame"]["route"] != "sizes":
        c = copy.deepcopy(sc)
        c["frame"]["route"] = "sizes"
        yield c
    if sc["big"]:
        return
    for key, v in (("fchans", 4), ("tchans", 1)):
        if sc["frame"]["geom"][key] > v:
            c = copy.deepcopy(sc)
            c["frame"]["geom"][key] = v
            yield c
    for j, op in enumerate(sc["ops"]):
        if op["op"] == "from_obs" and op["n"] > 1:
            c = copy.deepcopy(sc)
            c["ops"][j]["n"] = 1
            c["ops"][j]["n_std"] = 1
            yield c


def clip_estimates(data):
    """Candidate sigma-clipped (3 sigma, 5 iterations) re-estimates of the data: an own float64
    implementation and astropy's (trusted) in the data's own precision.  Clipping decisions on a
    handful of float32 pixels may legitimately differ between the two; either is accepted."""
    from astropy.stats import sigma_clip
    out = [my_sigma_clip_stats(data)]
    c = sigma_clip(np.asarray(data), sigma=3, maxiters=5, masked=False)
    out.append((float(np.mean(c)), float(np.std(c))))
    return out


def matches_reestimate(nm, ns, data, rel):
    return any(_close(nm, m2, rel=rel) and _close(ns, s2, rel=rel) for m2, s2 in clip_estimates(data))


def my_sigma_clip_stats(data, sigma=3.0, iters=5):
    x = np.asarray(data, dtype=np.float64).ravel()
    for _ in range(iters):
        if x.size == 0:
            break
        c = np.median(x)
        s = np.std(x)
        keep = (x >= c - sigma * s) & (x <= c + sigma * s)
        if keep.all():
            break
        x = x[keep]
    return float(np.mean(x)), float(np.std(x))


def _close(a, b, ulps=4, rel=0.0):
    a, b = float(a), float(b)
    return abs(a - b) <= ulps * math.ulp(max(abs(a), abs(b), 1e-300)) + rel * max(abs(a), abs(b))


def tables(op, scale=1.0):
    r = _REAL_DEFAULT_RNG([op["tseed"], 4])
    n, ns = op["n"], op["n_std"] if not op["share"] else op["n"]
    if op.get("tmode") == "low":
        # tables of (nearly) normalised data: zero / negative means, deviations that exceed the mean in some rows
        means = np.sort(r.uniform(-3.0, 6.0, size=n)) + np.arange(n) * 1e-3
    else:
        means = np.sort(r.uniform(5.0, 50.0, size=n)) + np.arange(n) * 1e-3
    stds = np.sort(r.uniform(0.5, 4.0, size=ns)) + np.arange(ns) * 1e-3
    mins = np.sort(r.uniform(1.0, 6.0, size=ns if not op["share"] else n)) + np.arange(ns if not op["share"] else n) * 1e-3
    return means, stds, mins


def execute(sc, ctx):
    import setigen as stg
    spec = sc["frame"]
    g = spec["geom"]
    fr, info = F.build_frame(spec, ctx)
    prod = g["df"] * g["dt"]
    if abs(prod - round(prod)) > 0.25:
        ctx.hit("half_integer_resolution")
    k = 4 * round(prod)       # Python's round: half to even, as the statement's round()
    if spec["route"] != "sizes":
        ctx.hit("preloaded_frame")
    geo = {id(fr): (g, k)}
    pool = [fr]
    if sc.get("frame2"):
        fr2, _ = F.build_frame(sc["frame2"], ctx)
        g2 = sc["frame2"]["geom"]
        pool.append(fr2)
        geo[id(fr2)] = (g2, 4 * round(g2["df"] * g2["dt"]))
        ctx.hit("two_resolutions_in_one_process")
    # Reading the estimates is itself an operation of the schedule (op["observe"]): a check that looked at them after
    # every step would hide state that is only wrong between two observations.  Emptiness is therefore tracked by the
    # model, not read from the frame.
    model_empty = {id(f): not np.any(f.data) for f in pool}
    held = []
    nnoise = 0
    had_signal_only = False
    after_zero = False
    kinds = set()
    g0, k0 = g, k
    for j, op in enumerate(sc["ops"]):
        fr = pool[op.get("fr", len(pool) - 1) % len(pool)]
        g, k = geo[id(fr)]
        kind = op["op"]
        ctx.op(kind)
        N = fr.data.size
        empty = model_empty[id(fr)]
        observe = op.get("observe", True)
        if not observe:
            ctx.hit("estimates_not_observed_after_op")
        data_before = np.array(fr.data, copy=True)
        others = [np.array(f.data, copy=True) for f in pool]
        try:
            if kind in ("noise", "from_obs"):
                x_mean = x_std = x_min = None
                dist = None
                if kind == "noise":
                    nk = op["kind"]
                    if nk == "chi2":
                        if k <= 0:
                            continue
                        if op.get("chi2_extra"):
                            # chi-squared noise "only uses x_mean": a deviation and a floor left over in the call (a script
                            # switched from Gaussian noise) change nothing
                            import copy as _copy
                            rng_before = _copy.deepcopy(fr.rng)
                            ret = fr.add_noise(op["x_mean"], op["x_std"], op["x_min"], noise_type="chi2")
                            plain = _copy.copy(fr)
                            plain.data = np.zeros_like(fr.data)
                            plain.rng = rng_before
                            plain.noise_mean = plain.noise_std = 0
                            want_ret = plain.add_noise(op["x_mean"], noise_type="chi2")
                            ctx.hit("chi2_with_leftover_gaussian_arguments")
                            if not ctx.check(np.array_equal(np.asarray(ret), np.asarray(want_ret)), "chi2",
                                             "C11/chi2/other_parameters_not_ignored",
                                             lambda: "add_noise(%r, %r, %r, 'chi2') differs from add_noise(%r) on the same generator state" % (
                                                 op["x_mean"], op["x_std"], op["x_min"], op["x_mean"])):
                                return
                        else:
                            ret = fr.add_noise(op["x_mean"])
                        x_mean, x_std, dist = op["x_mean"], op["x_mean"] * math.sqrt(2.0 / k), "chi2"
                    elif nk == "truncated":
                        ret = fr.add_noise(op["x_mean"], op["x_std"], op["x_min"], noise_type="gaussian")
                        x_mean, x_std, x_min, dist = op["x_mean"], op["x_std"], op["x_min"], "truncated"
                    else:
                        ret = fr.add_noise(op["x_mean"], op["x_std"], noise_type=nk)
                        x_mean, x_std, dist = op["x_mean"], op["x_std"], "gaussian"
                    kinds.add(dist)
                else:
                    nk = op["kind"]
                    if nk == "chi2" and k <= 0:
                        continue
                    if op["shipped"]:
                        ret = fr.add_noise_from_obs(noise_type=nk, share_index=True)
                        ctx.hit("shipped_table")
                        means = stds = mins = None
                    else:
                        means, stds, mins = tables(op)
                        kw = {"x_mean_array": means, "share_index": op["share"], "noise_type": nk}
                        if nk != "chi2":
                            kw["x_std_array"] = stds
                            if op["with_min"]:
                                kw["x_min_array"] = mins
                        ret = fr.add_noise_from_obs(**kw)
                        ctx.hit("table_share_index" if op["share"] else "table_independent")
                    dist = "chi2" if nk == "chi2" else ("truncated" if (op["with_min"] or op["shipped"]) else "gaussian")
                    kinds.add("obs:" + dist)
                raw_ret = ret
                ret = np.asarray(ret)
                ctx.event(kind, ret)
                nnoise += 1
                # what the call returned is the caller's: it neither aliases the frame nor changes later
                if not ctx.check(not np.shares_memory(raw_ret, fr.data), "alias", "C11/returned_noise_aliases_frame_data",
                                 "the returned noise array shares memory with frame.data"):
                    return
                held.append((raw_ret, np.array(ret, copy=True)))
                model_empty[id(fr)] = False
                # the returned array is exactly what was added
                if not ctx.check(ret.shape == data_before.shape and
                                 np.array_equal(fr.data, (data_before.astype(np.float64) + ret).astype(data_before.dtype)),
                                 "added", "C11/returned_is_not_what_was_added/%s" % dist, "data_after != data_before + returned noise"):
                    return
                if not observe:
                    # nothing read: only what the call returned is judged
                    if kind == "from_obs":
                        x_mean = x_std = x_min = None
                    nm = ns = None
                else:
                    nm, ns = float(fr.noise_mean), float(fr.noise_std)
                if not observe:
                    pass
                elif empty:
                    ctx.hit("first_noise_on_empty")
                    if after_zero:
                        ctx.hit("zero_data_then_noise")
                    if kind == "noise":
                        okp = _close(nm, x_mean) and _close(ns, x_std, 8)
                    else:
                        okp, x_mean, x_std, x_min = _table_member(op, nm, ns, means, stds, mins, k, g, ctx)
                    if had_signal_only and np.any(data_before):
                        okp = okp or matches_reestimate(nm, ns, fr.data, 1e-9 if fr.data.dtype == np.float64 else 1e-4)
                    if not ctx.check(okp, "estimates", "C11/estimates/first_noise_not_parameters/%s%s" % (
                            dist, "/table" if kind == "from_obs" else ""),
                            lambda: "noise_mean %r noise_std %r after first noise; parameters %r %r (k=%d)" % (nm, ns, x_mean, x_std, k)):
                        return
                else:
                    ctx.hit("later_noise_reestimated")
                    m2, s2 = my_sigma_clip_stats(fr.data)
                    rel = 1e-9 if fr.data.dtype == np.float64 else 1e-4      # float32 frames accumulate in float32
                    ok_est = matches_reestimate(nm, ns, fr.data, rel)
                    if not ok_est and any(m_ == 0.0 and s_ == 0.0 for m_, s_ in clip_estimates(data_before)):
                        # the frame held data whose sigma-clipped estimate is exactly (0, 0) - what "no noise yet" looks
                        # like to the library.  As for frames that hold only signals, "empty" is then ambiguous and the
                        # requested parameters are accepted as well
                        ctx.hit("nonempty_frame_with_zero_estimates")
                        if kind == "noise":
                            ok_est = _close(nm, x_mean) and _close(ns, x_std, 8)
                        else:
                            ok_est = _table_member(op, nm, ns, means, stds, mins, k, g, ctx)[0]
                    if not ctx.check(ok_est, "estimates",
                                     "C11/estimates/later_noise_not_reestimated/%s" % dist,
                                     lambda: "noise_mean %r noise_std %r; sigma-clipped re-estimate %r %r" % (nm, ns, m2, s2)):
                        return
                if dist == "truncated" and x_min is not None:
                    ctx.hit("truncated_floor_checked")
                    if not ctx.check(float(ret.min()) >= x_min, "floor", "C11/truncated_below_floor",
                                     lambda: "min %r < floor %r" % (float(ret.min()), x_min)):
                        return
                # moments, as the statement prescribes, on large returned arrays
                if N >= 16384 and x_mean is not None and dist in ("chi2", "gaussian"):
                    m = float(np.mean(ret))
                    v = float(np.var(ret))
                    if dist == "chi2":
                        c = x_mean / k
                        v0 = 2.0 * k * c * c
                        sd_v = math.sqrt((8.0 * k * k + 48.0 * k) * c ** 4 / N)
                        ctx.hit("moment_test_chi2")
                    else:
                        v0 = x_std ** 2
                        sd_v = math.sqrt(2.0 * x_std ** 4 / N)
                        ctx.hit("moment_test_gaussian")
                    sd_m = math.sqrt(v0 / N)
                    ctx.nontrivial = True
                    if not ctx.check(abs(m - x_mean) <= 7 * sd_m, "moments", "C11/moments/mean/%s" % dist,
                                     lambda: "sample mean %r, want %r +- 7*%.3g (N=%d)" % (m, x_mean, sd_m, N)):
                        return
                    if not ctx.check(abs(v - v0) <= 7 * sd_v, "moments", "C11/moments/variance/%s" % dist,
                                     lambda: "sample variance %r, want %r +- 7*%.3g (k=%d N=%d)" % (v, v0, sd_v, k, N)):
                        return
                    if dist == "chi2":
                        ctx.check(float(ret.min()) >= 0, "moments", "C11/moments/chi2_negative", "")
                had_signal_only = False
                after_zero = False
            elif kind == "reject_noise":
                try:
                    if op["how"] == "no_std":
                        fr.add_noise(op["x_mean"], noise_type="gaussian")
                    elif op["how"] == "bad_type":
                        fr.add_noise(op["x_mean"], 1.0, noise_type="poisson")
                    else:
                        fr.add_noise_from_obs(x_mean_array=np.array([1.0, 2.0, 3.0]), x_std_array=np.array([1.0, 2.0]),
                                              share_index=True, noise_type="gaussian")
                    raised = False
                except (ValueError, IndexError):
                    raised = True
                ctx.fired("rejected_noise_call")
                ctx.check(raised, "reject", "C11/reject/invalid_noise_call_accepted/" + op["how"], "no exception")
                # a rejected call adds nothing: the frame is as it was (data here; the estimates show at the next observation)
                ctx.check(np.array_equal(fr.data, data_before), "reject", "C11/reject/data_changed_by_rejected_call/" + op["how"], "")
            elif kind == "zero":
                fr.zero_data()
                model_empty[id(fr)] = True
                ok = ctx.check(not np.any(fr.data) and fr.data.shape == data_before.shape, "zero", "C11/zero_data", "zero_data left data behind")
                if observe:
                    ctx.check(fr.noise_mean == 0 and fr.noise_std == 0, "zero", "C11/zero_data", "zero_data left estimates behind")
                after_zero = True
                had_signal_only = False
            elif kind == "inject":
                sig = op["sig"]
                if sig["opts"].get("integrate_f_profile") and sig["bp"]["kind"] == "array":
                    sig = dict(sig, bp={"kind": "none"})
                path, tp, fp, bpp = F.signal_components(sig, g, fr.tchans, fr.fmin, fs_len=fr.fchans)
                est = (fr.noise_mean, fr.noise_std) if observe else None
                fr.add_signal(path, tp, fp, bpp, **sig["opts"])
                if observe:
                    ctx.check((fr.noise_mean, fr.noise_std) == est, "estimates", "C11/estimates/changed_by_injection", "")
                if empty:
                    had_signal_only = True
                    ctx.hit("signal_before_noise")
            elif kind == "copy":
                c = fr.copy()
                ctx.check(np.array_equal(c.data, fr.data), "copy", "C11/copy_differs", "")
                if observe:
                    ctx.check(c.noise_mean == fr.noise_mean and c.noise_std == fr.noise_std, "copy", "C11/copy_differs", "")
                pool.append(c)
                model_empty[id(c)] = model_empty[id(fr)]
                geo[id(c)] = geo[id(fr)]
            elif kind == "snr":
                s = op["s"]
                if fr.noise_std == 0:
                    for fn in (fr.get_intensity, fr.get_snr):
                        try:
                            fn(s)
                            ctx.violation("snr", "C11/snr/no_error_without_noise", "%s(%r) returned without noise in the frame" % (fn.__name__, s))
                            return
                        except ValueError:
                            pass
                else:
                    inten = fr.get_intensity(snr=s)
                    back = fr.get_snr(inten)
                    want = s * float(fr.noise_std) / math.sqrt(fr.tchans)
                    rel = 0.0 if np.asarray(fr.noise_std).dtype == np.float64 else 1e-5    # float32 estimates of float32 frames
                    ctx.check(_close(inten, want, 4, rel) and _close(back, s, 8, rel), "snr", "C11/snr/relations",
                              lambda: "get_intensity(%r)=%r want %r; get_snr back %r" % (s, inten, want, back))
        except Exception as e:
            from ..worlds.raw import innermost_setigen_frame
            ctx.violation("op", "C11/%s/raises:%s@%s" % (kind, type(e).__name__, innermost_setigen_frame(e)), repr(e))
            return
        for f, d in zip(pool, others):
            if f is not fr:
                ctx.check(np.array_equal(f.data, d), "isolation", "C11/other_frame_changed", "")
        for r_, snap in held:
            if not ctx.check(np.array_equal(np.asarray(r_), snap), "held", "C11/returned_noise_changed_by_later_operation",
                             "a noise array returned earlier no longer holds what was added then"):
                return
        del held[:-4]
        if ctx.violations and ctx.stop_on_violation:
            return
    if nnoise >= 2:
        ctx.nontrivial = True
    # ---- stream clause: deviations add in quadrature --------------------------------
    st = sc["streams"]
    if st is not None:
        _streams(ctx, st)
    g, k = g0, k0
    ctx.sim_time += g["tchans"] * g["dt"]
    ctx.fingerprint = [sc["big"], spec["route"], bool(sc.get("frame2")), k if k < 12 else "12+", sorted(kinds), sorted({o["op"] for o in sc["ops"]}),
                       None if st is None else (st["n_ant"], st["pols"], len(st["ops"]))]


def _table_member(op, nm, ns, means, stds, mins, k, g, ctx):
    """Is (noise_mean, noise_std) attributable to entries of the tables?"""
    if op["shipped"]:
        import os
        import setigen
        t = np.load(os.path.join(os.path.dirname(setigen.__file__), "assets", "sample_noise_params.npy"))
        scale = g["dt"] / 1.4316557653333333
        if op["kind"] == "chi2":
            idx = np.flatnonzero(np.abs(t[:, 0] * scale - nm) <= 1e-12 * abs(nm))
            ok = idx.size > 0 and _close(ns, nm * math.sqrt(2.0 / k), 8)
            return ok, nm, nm * math.sqrt(2.0 / k), None
        idx = np.flatnonzero((np.abs(t[:, 0] * scale - nm) <= 1e-12 * abs(nm)) & (np.abs(t[:, 1] * scale - ns) <= 1e-12 * abs(ns)))
        if idx.size == 0:
            return False, nm, ns, None
        return True, nm, ns, float(t[idx[0], 2] * scale)
    if op["kind"] == "chi2":
        ok = bool(np.any(means == nm)) and _close(ns, nm * math.sqrt(2.0 / k), 8)
        return ok, nm, nm * math.sqrt(2.0 / k), None
    if op["share"]:
        idx = np.flatnonzero((means == nm) & (stds == ns))
        if idx.size != 1:
            return False, nm, ns, None
        return True, nm, ns, (float(mins[idx[0]]) if op["with_min"] else None)
    # independent sampling: std from its table, mean = max(mean entry, std)
    if not np.any(stds == ns):
        return False, nm, ns, None
    ok = bool(np.any(np.maximum(means, ns) == nm))
    return ok, nm, ns, (float(mins.min()) if op["with_min"] else None)


def _streams(ctx, st):
    import setigen.voltage as sv
    n_ant, pols = st["n_ant"], st["pols"]
    if n_ant == 0:
        s = sv.DataStream(sample_rate=1e6, seed=st["seed"])
        acc = 0.0
        n = 0
        for op in st["ops"]:
            s.add_noise(op["mean"], op["std"])
            acc += op["std"] ** 2
            n += 1
            ctx.hit("stream_quadrature")
            got = float(s.get_total_noise_std())
            if not ctx.check(_close(got, math.sqrt(acc), 4 * n), "quadrature", "C11/quadrature/stream",
                             lambda: "total %r, sqrt(sum v_std^2) %r" % (got, math.sqrt(acc))):
                return
        return
    arr = sv.MultiAntennaArray(num_antennas=n_ant, sample_rate=1e6, num_pols=pols, delays=[0] * n_ant, seed=st["seed"])
    own = {}
    bg = {}
    n = 0
    for op in st["ops"]:
        t = op["target"]
        p = 0 if t.endswith("x") else 1
        if p >= pols:
            p = 0
        if op.get("update"):
            # the stream's own deviation is replaced by an estimate from its samples (the documented way to account
            # for custom sources); whatever that estimate is, the totals must combine it in quadrature from now on
            if t.startswith("bg"):
                arr.bg_streams[p].update_noise(op["update"])
                bg[p] = float(arr.bg_streams[p].noise_std) ** 2
                ctx.hit("array_background_reestimated")
            else:
                a = op["ant"] % n_ant
                arr.antennas[a].streams[p].update_noise(op["update"])
                own[(a, p)] = float(arr.antennas[a].streams[p].noise_std) ** 2
        elif t.startswith("bg"):
            arr.bg_streams[p].add_noise(op["mean"], op["std"])
            bg[p] = bg.get(p, 0.0) + op["std"] ** 2
            ctx.hit("array_background_quadrature")
        else:
            a = op["ant"] % n_ant
            arr.antennas[a].streams[p].add_noise(op["mean"], op["std"])
            own[(a, p)] = own.get((a, p), 0.0) + op["std"] ** 2
        n += 1
        for a in range(n_ant):
            for q in range(pols):
                got = float(arr.antennas[a].streams[q].get_total_noise_std())
                want = math.sqrt(own.get((a, q), 0.0) + bg.get(q, 0.0))
                if not ctx.check(_close(got, want, 8 * n), "quadrature", "C11/quadrature/array/%s" % (
                        "background_not_propagated" if bg.get(q) and abs(got - math.sqrt(own.get((a, q), 0.0))) < 1e-12 else "sum"),
                        lambda: "antenna %d pol %d total %r, want sqrt(%r + %r)" % (a, q, got, own.get((a, q), 0.0), bg.get(q, 0.0))):
                    return
