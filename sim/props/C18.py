"""C18 — a cadence is a consistency-guarded list of frames with stable order labels.

CADENCE world.  Classic model-based stateful check: a seeded history of list
operations over a pool of compatible frames, incompatible frames and
non-frames; RefList (a Python list plus label bookkeeping) is the oracle, by
identity, after every operation.  Rejected operations are the "faults".
"""
import copy

import numpy as np

ID = "C18"
WORLD = "cadence"
LEVEL = "exploration"
EST_RUN_S = 0.03
RULE = ("scenario = Cadence or OrderedCadence (seeded order string) over a pool of compatible frames, frames differing in "
        "exactly one of df/dt/fchans/fmin, and non-frame objects; a seeded history (<= 30 ops) of construction, append, "
        "extend, insert, item assignment, deletion (int and slice), pop, selection by int/slice/index array/mask, by_label, "
        "set_order with indices negative, in range and out of range; oracle = list(cadence) by identity == RefList after "
        "every op, rejected ops raise and leave the sequence unchanged, labels per the statement, aggregates agree; "
        "non-trivial = >= 3 ops of which one mutates; distinct = abstract fingerprint (class, op set, index classes, "
        "accepted/rejected mix)")
COMPONENTS = {"real": ["setigen.cadence.Cadence / OrderedCadence", "setigen.frame.Frame (pool members)"],
              "stub": ["SimClock (frame construction reads the clock)", "entropy seam (tripwire)"]}
ASSUMPTIONS = ["slice assignment is not generated (the statement does not cover it)",
               "where the insertion position lies beyond the order string the operation may raise-and-not-add or add",
               "after an operation that raised, the label of the frame it was given is re-read rather than predicted"]
PROBES = ["constructed_with_t_overwrite", "cadence_built_from_cadence", "rejected_incompatible", "rejected_nonframe", "index_out_of_range", "negative_index", "insert_beyond_len",
          "label_assigned", "label_sticky", "by_label_checked", "set_order_applied", "extend_partial", "slice_selection",
          "index_array_selection", "empty_cadence_op"]

ORDERS = ["ABACAD", "ABABAB", "AB", "A", "ABCDEFGH", "ONONON"]


def generate(rng, tier):
    ordered = rng.random() < 0.6
    order = rng.choice(ORDERS)
    ncompat = rng.choice([3, 4, 6, 8])
    # SCALE: a whole observing session - dozens of frames handed over in one list (bulk paths that only engage beyond
    # some length are invisible with a handful of frames)
    big = rng.random() < (0.07 if tier == "quick" else 0.12)
    if big:
        ncompat = rng.choice([40, 48, 70, 140, 200])
        order = rng.choice(["ABACAD" * 40, "ABACAD" * 40, "AB" * 120, "ABACADAEAFAGAH" * 3])
    pool = []
    for i in range(ncompat):
        pool.append({"kind": "ok", "tchans": rng.choice([2, 3, 4]), "t_start": 1000.0 * i + rng.choice([0.0, 5.0]),
                     "flip": rng.random() < 0.15, "via": rng.choice(["init", "init", "from_data", "copy"])})
    for attr in ("df", "dt", "fchans", "fmin"):
        if rng.random() < 0.7:
            pool.append({"kind": "bad", "attr": attr, "tchans": 3, "t_start": 77.0})
    for nf in rng.sample(["none", "int", "str", "array", "cadence"], rng.randint(1, 3)):
        pool.append({"kind": "nonframe", "what": nf})
    npool = len(pool)
    init = [rng.randrange(ncompat) for _ in range(rng.choice([0, 0, 1, 2, 3, 4]))]
    if big and rng.random() < 0.6:
        init = rng.sample(range(ncompat), rng.choice([32, 33, 36, 40] + ([128, 130, 139] if ncompat >= 140 else [])))
    if rng.random() < 0.1:
        init.append(rng.randrange(npool))

    def idx():
        return rng.choice([0, 0, 1, 2, 3, -1, -1, -2, -3, 5, 7, -7, -10, 100])

    def item():
        return rng.randrange(ncompat) if rng.random() < 0.72 else rng.randrange(npool)
    ops = []
    for _ in range(rng.randint(3, 30 if tier == "thorough" else 18)):
        r = rng.random()
        if r < 0.16:
            ops.append({"op": "append", "item": item()})
        elif r < 0.24:
            ops.append({"op": "extend", "items": [item() for _ in range(rng.randint(0, 4))]})
        elif r < 0.42:
            ops.append({"op": "insert", "i": idx(), "item": item()})
        elif r < 0.54:
            ops.append({"op": "setitem", "i": idx(), "item": item()})
        elif r < 0.62:
            if rng.random() < 0.25:
                ops.append({"op": "delslice", "a": rng.choice([None, 0, 1, -2]), "b": rng.choice([None, 1, 2, -1]), "c": None})
            else:
                ops.append({"op": "delitem", "i": idx()})
        elif r < 0.69:
            ops.append({"op": "pop", "i": rng.choice([None, None, idx()])})
        elif r < 0.76:
            ops.append({"op": "getitem", "i": idx()})
            if rng.random() < 0.5:
                ops.append({"op": "derive_mutate", "how": rng.choice(["clone", "clone", "plain_clone", "slice", "array"]),
                            "mut": rng.choice(["pop", "del0", "append", "reverse"])})
        elif r < 0.82:
            ops.append({"op": "getslice", "a": rng.choice([None, 0, 1, -2, 5]), "b": rng.choice([None, 1, 3, -1, 9]),
                        "c": rng.choice([None, None, 2, -1])})
        elif r < 0.87:
            ops.append({"op": "getarray", "idx": [rng.choice([0, 1, 2, -1]) for _ in range(rng.randint(0, 3))],
                        "form": rng.choice(["list", "ndarray", "mask"]), "maskbits": rng.randrange(256)})
        elif r < 0.93:
            ops.append({"op": "by_label", "label": rng.choice(list(order) + ["A", "Z"])})
        else:
            ops.append({"op": "set_order", "order": rng.choice(ORDERS + ["ABACADAEAFAGAH"])})
    if big:
        at = rng.randrange(min(len(ops), 4) + 1)
        ops.insert(at, {"op": "extend", "items": rng.sample(range(ncompat), rng.choice([32, 34, 40]))})
        ops.insert(at + 1, {"op": "by_label", "label": "A"})
        # selection by index array, a mutation, the same selection again (anything kept between selections must notice)
        ga = {"op": "getarray", "idx": [rng.choice([0, 1, 2, -1, 5, 31]) for _ in range(3)], "form": rng.choice(["list", "ndarray"]), "maskbits": 0}
        mut = rng.choice([{"op": "setitem", "i": rng.choice([0, 1, 2, -1]), "item": rng.randrange(ncompat)},
                          {"op": "insert", "i": rng.choice([0, 1, 3]), "item": rng.randrange(ncompat)},
                          {"op": "append", "item": rng.randrange(ncompat)}, {"op": "delitem", "i": 0}])
        ops.extend([dict(ga), mut, dict(ga)])
    for op in ops:
        # reading the aggregate properties is itself scheduled: reading fills any cache, not reading lets it go stale
        op["observe"] = rng.random() < 0.6
    return {"seams": {"clock_origin": 1.7e9, "clock_jitter_seed": rng.randrange(1 << 20),
                      "entropy_salt": rng.randrange(1 << 20), "scratch": "c18"},
            "ordered": ordered, "order": order, "pool": pool, "init": init, "ops": ops,
            # constructor keywords: the slew time, and whether start times are laid out afresh at construction
            "ctor": ({"t_slew": rng.choice([0, 10.0, 30.5]), "t_overwrite": rng.random() < 0.6} if rng.random() < 0.35 else {}),
            "geom": {"fchans": rng.choice([4, 8]), "df": rng.choice([1.0, 2.7939677238464355]), "dt": rng.choice([1.0, 18.253611008]),
                     "fch1": rng.choice([6e9, 1.5e9]), "ascending": rng.random() < 0.5}}


def simplify(sc):
    for j, op in enumerate(sc["ops"]):
        if "i" in op and op["i"] not in (0, None):
            for v in (0, 1, -1):
                if v != op["i"]:
                    c = copy.deepcopy(sc)
                    c["ops"][j]["i"] = v
                    yield c
        if op["op"] == "extend" and len(op["items"]) > 1:
            c = copy.deepcopy(sc)
            c["ops"][j]["items"] = op["items"][:-1]
            yield c
    if sc["init"]:
        c = copy.deepcopy(sc)
        c["init"] = sc["init"][:-1]
        yield c
    if sc["ordered"]:
        c = copy.deepcopy(sc)
        c["ordered"] = False
        yield c
    if sc["order"] != "ABACAD":
        c = copy.deepcopy(sc)
        c["order"] = "ABACAD"
        yield c


# ---------------------------------------------------------------------------

def build_pool(sc):
    import setigen as stg
    g = sc["geom"]
    out = []
    for k, p in enumerate(sc["pool"]):
        if p["kind"] == "nonframe":
            w = p["what"]
            out.append({"none": None, "int": 3, "str": "frame", "array": np.zeros((3, g["fchans"])),
                        "cadence": stg.Cadence()}[w])
            continue
        kw = dict(fchans=g["fchans"], tchans=p["tchans"], df=g["df"], dt=g["dt"], fch1=g["fch1"], ascending=g["ascending"],
                  t_start=p["t_start"], seed=k)
        if p["kind"] == "ok" and p.get("flip"):
            # same band described with the opposite orientation flag: same fmin, compatible
            span = (g["fchans"] - 1) * g["df"]
            kw["ascending"] = not g["ascending"]
            kw["fch1"] = g["fch1"] + span if g["ascending"] else g["fch1"] - span
        if p["kind"] == "bad":
            a = p["attr"]
            if a == "df":
                kw["df"] = g["df"] * 2
                kw["fch1"] = g["fch1"] if g["ascending"] else g["fch1"] + (g["fchans"] - 1) * g["df"]   # keep fmin equal
            elif a == "dt":
                kw["dt"] = g["dt"] * 1.5
            elif a == "fchans":
                kw["fchans"] = g["fchans"] + 1
                if not g["ascending"]:
                    kw["fch1"] = g["fch1"] + g["df"]      # keep fmin equal
            elif a == "fmin":
                kw["fch1"] = g["fch1"] + 3 * g["df"]
        via = p.get("via", "init")
        if via == "from_data" and p["kind"] == "ok":
            # the alternative constructor, metadata argument omitted
            fr = stg.Frame.from_data(kw["df"], kw["dt"], kw["fch1"], kw["ascending"], np.zeros((kw["tchans"], kw["fchans"])),
                                     seed=kw["seed"], t_start=kw["t_start"])
        elif via == "copy" and p["kind"] == "ok":
            fr = stg.Frame(**kw).copy()
        else:
            fr = stg.Frame(**kw)
        out.append(fr)
    return out


def is_frame(x):
    import setigen as stg
    return isinstance(x, stg.Frame)


def compatible(ref, v):
    if not is_frame(v):
        return False, "nonframe"
    if ref:
        f0 = ref[0]
        for attr in ("df", "dt", "fchans", "fmin"):
            if getattr(v, attr) != getattr(f0, attr):
                return False, "incompatible"
    return True, ""


def icls(i, n):
    if i is None:
        return "default"
    if 0 <= i < n:
        return "in_range"
    if -n <= i < 0:
        return "negative_in_range"
    if i == n:
        return "==len"
    if i > n:
        return ">len"
    return "<-len"


def label_of(f):
    return f.metadata.get("order_label") if is_frame(f) else None


def execute(sc, ctx):
    import setigen as stg
    pool = build_pool(sc)
    ordered, order = sc["ordered"], sc["order"]
    cls = stg.OrderedCadence if ordered else stg.Cadence
    cname = "OrderedCadence" if ordered else "Cadence"
    ref = []                 # RefList
    labels = {}              # id(frame) -> expected label or None (unlabelled) ; "?" unknown
    state = {"order": order}

    def expect_label(f, pos):
        """Model of label assignment on set/insert at (clamped) position pos."""
        if not ordered or not is_frame(f):
            return True
        cur = labels.get(id(f))
        if cur is not None:
            ctx.hit("label_sticky")
            return True          # sticky
        if pos < len(state["order"]):
            labels[id(f)] = state["order"][pos]
            ctx.hit("label_assigned")
            return True
        return False             # beyond the order string: may raise-and-not-add or add

    def seq_ok(op_name, ic):
        got = [id(f) for f in cad]
        want = [id(f) for f in ref]
        ok = ctx.check(got == want and len(cad) == len(ref), "sequence", "C18/%s/%s/%s/sequence_differs" % (cname, op_name, ic),
                       lambda: "cadence has pool items %s, list model %s" % ([pid.get(x, "?") for x in got],
                                                                             [pid.get(x, "?") for x in want]))
        if ok and ordered:
            for pos, f in enumerate(ref):
                want_l = labels.get(id(f))
                got_l = label_of(f)
                if want_l == "?":
                    labels[id(f)] = got_l
                    continue
                if not ctx.check(got_l == want_l, "labels", "C18/%s/%s/%s/label_wrong" % (cname, op_name, ic),
                                 lambda: "frame at %d (pool %s) has label %r, expected %r (order %r)" % (
                                     pos, pid.get(id(f)), got_l, want_l, state["order"])):
                    return False
        return ok

    pid = {id(x): i for i, x in enumerate(pool)}

    # ---- construction ----------------------------------------------------------
    init_items = [pool[i] for i in sc["init"]]
    ctx.op("construct")
    model_ok = True
    tmp = []
    beyond = False
    for v in init_items:
        ok, why = compatible(tmp, v)
        if not ok:
            model_ok = False
            break
        if not expect_label(v, len(tmp)):
            beyond = True
        tmp.append(v)
    try:
        ckw = dict(sc.get("ctor", {}))
        if ckw.get("t_overwrite"):
            ctx.hit("constructed_with_t_overwrite")
        cad = cls(list(init_items), order=order, **ckw) if ordered else cls(list(init_items), **ckw)
        raised = None
    except Exception as e:
        raised = e
    if raised is not None:
        if model_ok and not beyond:
            ctx.violation("construct", "C18/%s/construct/raises:%s" % (cname, type(raised).__name__), repr(raised))
            return
        # rejected construction: start from an empty cadence instead
        for v in init_items:
            if is_frame(v):
                labels[id(v)] = "?" if ordered and label_of(v) is not None else labels.get(id(v)) if label_of(v) is not None else None
        cad = cls(order=order, **ckw) if ordered else cls(**ckw)
        ref = []
    else:
        if not ctx.check(model_ok, "construct", "C18/%s/construct/accepted_%s" % (cname, "invalid_member"),
                         "constructor accepted a non-frame or incompatible frame"):
            return
        ref = list(init_items)
        if beyond:
            for v in ref:
                if labels.get(id(v)) is None and label_of(v) is not None:
                    labels[id(v)] = label_of(v)
    if not seq_ok("construct", "n/a"):
        return
    nops = 0
    mutated = False
    accepted = rejected = 0
    iclasses = set()
    for op in sc["ops"]:
        kind = op["op"]
        ctx.op(kind)
        n = len(ref)
        if n == 0:
            ctx.hit("empty_cadence_op")
        ic = "n/a"
        res = None
        exc = None
        if kind in ("append", "insert", "setitem"):
            v = pool[op["item"] % len(pool)]
            ok, why = compatible(ref, v)
            if kind == "append":
                pos, ic = n, "append"
            elif kind == "insert":
                i = op["i"]
                ic = icls(i, n)
                pos = max(0, n + i) if i < 0 else min(i, n)
            else:
                i = op["i"]
                ic = icls(i, n)
                pos = i if i >= 0 else n + i
            iclasses.add(ic)
            if ic in (">len", "<-len", "==len"):
                ctx.hit("index_out_of_range" if kind == "setitem" else "insert_beyond_len")
            if ic.startswith("negative") or ic == "<-len":
                ctx.hit("negative_index")
            in_range = kind != "setitem" or (0 <= pos < n)
            try:
                if kind == "append":
                    cad.append(v)
                elif kind == "insert":
                    cad.insert(op["i"], v)
                else:
                    cad[op["i"]] = v
            except Exception as e:
                exc = e
            if not ok:
                ctx.hit("rejected_" + why)
                rejected += 1
                if not ctx.check(exc is not None, "guard", "C18/%s/%s/%s/accepted_%s" % (cname, kind, ic, why),
                                 "operation that would add a %s did not raise" % why):
                    return
                if is_frame(v) and labels.get(id(v)) is None and label_of(v) is not None:
                    labels[id(v)] = label_of(v)
            elif not in_range:
                rejected += 1
                if not ctx.check(isinstance(exc, IndexError), "index", "C18/%s/setitem/%s/%s" % (
                        cname, ic, "no_IndexError" if exc is None else "raises:" + type(exc).__name__),
                        "list assignment index out of range must raise IndexError, got %r" % (exc,)):
                    return
                if is_frame(v) and labels.get(id(v)) is None and label_of(v) is not None:
                    labels[id(v)] = label_of(v)       # see ASSUMPTIONS
            else:
                lab_ok = expect_label(v, pos)
                if exc is not None:
                    if lab_ok:
                        ctx.violation("list", "C18/%s/%s/%s/raises:%s" % (cname, kind, ic, type(exc).__name__),
                                      "a list accepts this operation (len %d, index %r): %r" % (n, op.get("i"), exc))
                        return
                    rejected += 1         # beyond the order string: raise-and-not-add is accepted
                    if labels.get(id(v)) is None and label_of(v) is not None:
                        labels[id(v)] = label_of(v)
                else:
                    accepted += 1
                    mutated = True
                    if kind == "setitem":
                        ref[pos] = v
                    else:
                        ref.insert(pos, v)
                    if not lab_ok and labels.get(id(v)) is None:
                        labels[id(v)] = label_of(v)      # added beyond the order string: any label
        elif kind == "extend":
            items = [pool[i % len(pool)] for i in op["items"]]
            try:
                cad.extend(list(items))
            except Exception as e:
                exc = e
            expect_raise = False
            may_raise = False
            for v in items:
                ok, why = compatible(ref, v)
                if not ok:
                    expect_raise = True
                    ctx.hit("rejected_" + why)
                    ctx.hit("extend_partial")
                    break
                if not expect_label(v, len(ref)):
                    may_raise = True
                    if exc is not None:
                        break
                    if labels.get(id(v)) is None:
                        labels[id(v)] = label_of(v)
                ref.append(v)
                mutated = True
            if expect_raise:
                if not ctx.check(exc is not None, "guard", "C18/%s/extend/accepted_invalid_member" % cname, "extend did not raise"):
                    return
            elif exc is not None and not may_raise:
                ctx.violation("list", "C18/%s/extend/raises:%s" % (cname, type(exc).__name__), repr(exc))
                return
            for v in items:
                if is_frame(v) and labels.get(id(v)) is None and label_of(v) is not None:
                    labels[id(v)] = label_of(v)
        elif kind in ("delitem", "pop", "getitem"):
            i = op["i"]
            ic = icls(i, n)
            iclasses.add(ic)
            j = (n - 1) if i is None else i
            valid = n > 0 and -n <= j < n
            if not valid:
                ctx.hit("index_out_of_range")
            if i is not None and i < 0:
                ctx.hit("negative_index")
            try:
                if kind == "delitem":
                    del cad[i]
                elif kind == "pop":
                    res = cad.pop() if i is None else cad.pop(i)
                else:
                    res = cad[i]
            except Exception as e:
                exc = e
            if valid:
                if exc is not None:
                    ctx.violation("list", "C18/%s/%s/%s/raises:%s" % (cname, kind, ic, type(exc).__name__), repr(exc))
                    return
                want = ref[j]
                if kind != "delitem":
                    if not ctx.check(res is want, "list", "C18/%s/%s/%s/wrong_item" % (cname, kind, ic), "returned a different frame"):
                        return
                if kind != "getitem":
                    del ref[j]
                    mutated = True
            else:
                if not ctx.check(isinstance(exc, IndexError), "index", "C18/%s/%s/%s/%s" % (
                        cname, kind, ic, "no_IndexError" if exc is None else "raises:" + type(exc).__name__), repr(exc)):
                    return
        elif kind == "delslice":
            s = slice(op["a"], op["b"], op["c"])
            try:
                del cad[s]
            except Exception as e:
                ctx.violation("list", "C18/%s/delslice/raises:%s" % (cname, type(e).__name__), repr(e))
                return
            del ref[s]
            mutated = True
        elif kind == "getslice":
            s = slice(op["a"], op["b"], op["c"])
            ctx.hit("slice_selection")
            try:
                res = cad[s]
            except Exception as e:
                ctx.violation("list", "C18/%s/getslice/raises:%s" % (cname, type(e).__name__), repr(e))
                return
            want = ref[s]
            if not ctx.check(isinstance(res, stg.Cadence) and [id(f) for f in res] == [id(f) for f in want], "list",
                             "C18/%s/getslice/wrong_selection" % cname,
                             lambda: "slice %r of %d frames returned %s" % (s, n, [pid.get(id(f)) for f in res])):
                return
        elif kind == "getarray":
            form = op["form"]
            if form == "mask":
                sel = np.array([(op["maskbits"] >> k) & 1 == 1 for k in range(n)], dtype=bool)
                want = [f for f, m in zip(ref, sel) if m]
                arg = sel
                valid = True
            else:
                raw = list(op["idx"])
                valid = all(-n <= k < n for k in raw)
                want = [ref[k] for k in raw] if valid else None
                arg = {"list": raw, "ndarray": np.array(raw, dtype=int), "tuple": tuple(raw)}[form]
            if n == 0:
                # an empty cadence has no object array to index; nothing the statement covers
                continue
            ctx.hit("index_array_selection")
            arg_snap = copy.deepcopy(arg)
            try:
                res = cad[arg]
            except Exception as e:
                exc = e
            # the selector is the caller's object: unchanged by the selection (it may be used again later)
            if not ctx.check(type(arg) is type(arg_snap) and np.array_equal(np.asarray(arg), np.asarray(arg_snap)), "args",
                             "C18/%s/getarray/%s/selector_modified" % (cname, form), lambda: "selector now %r, was %r" % (arg, arg_snap)):
                return
            if valid:
                if exc is not None:
                    ctx.violation("list", "C18/%s/getarray/%s/raises:%s" % (cname, form, type(exc).__name__), repr(exc))
                    return
                if not ctx.check([id(f) for f in res] == [id(f) for f in want], "list", "C18/%s/getarray/%s/wrong_selection" % (cname, form),
                                 lambda: "index %r returned %s" % (arg, [pid.get(id(f)) for f in res])):
                    return
            else:
                if not ctx.check(exc is not None, "index", "C18/%s/getarray/%s/out_of_range_accepted" % (cname, form), "no exception"):
                    return
        elif kind == "derive_mutate":
            # a cadence built from this one (constructor given the cadence itself, a full slice, an index array) is
            # another container over the same frames: what happens to it afterwards is not this cadence's business
            how = op["how"]
            try:
                if how == "clone":
                    der = cls(cad, order=state["order"]) if ordered else cls(cad)
                elif how == "plain_clone":
                    der = stg.Cadence(cad)
                elif how == "slice":
                    der = cad[:]
                else:
                    der = cad[list(range(n))] if n else cad[:]
            except Exception as e:
                ctx.violation("list", "C18/%s/derive/%s/raises:%s" % (cname, how, type(e).__name__), repr(e))
                return
            ctx.hit("cadence_built_from_cadence")
            if not ctx.check([id(f) for f in der] == [id(f) for f in ref], "list", "C18/%s/derive/%s/wrong_members" % (cname, how),
                             lambda: "derived cadence holds %s" % [pid.get(id(f)) for f in der]):
                return
            try:
                if op["mut"] == "pop" and len(der):
                    der.pop()
                elif op["mut"] == "del0" and len(der):
                    del der[0]
                elif op["mut"] == "reverse" and len(der) > 1:
                    der.reverse()
                elif len(der):
                    der.append(der[0])
            except Exception as e:
                ctx.violation("list", "C18/%s/derive/%s/mutation_raises:%s" % (cname, how, type(e).__name__), repr(e))
                return
            if not seq_ok("source_after_mutating_derived:" + how, "n/a"):
                return
        elif kind == "by_label":
            if not ordered:
                continue
            if any(labels.get(id(f)) in (None, "?") for f in ref):
                continue
            ctx.hit("by_label_checked")
            try:
                res = cad.by_label(op["label"])
            except Exception as e:
                ctx.violation("labels", "C18/%s/by_label/raises:%s" % (cname, type(e).__name__), repr(e))
                return
            want = [f for f in ref if labels[id(f)] == op["label"]]
            if not ctx.check([id(f) for f in res] == [id(f) for f in want], "labels", "C18/%s/by_label/wrong_selection" % cname,
                             lambda: "label %r: got %s want %s" % (op["label"], [pid.get(id(f)) for f in res], [pid.get(id(f)) for f in want])):
                return
        elif kind == "set_order":
            if not ordered:
                continue
            new = op["order"]
            try:
                cad.set_order(new)
            except Exception as e:
                exc = e
            if len(new) >= n:
                if exc is not None:
                    ctx.violation("labels", "C18/%s/set_order/raises:%s" % (cname, type(exc).__name__), repr(exc))
                    return
                state["order"] = new
                for pos, f in enumerate(ref):
                    labels[id(f)] = new[pos]
                ctx.hit("set_order_applied")
            else:
                # order shorter than the cadence: outcome unspecified; re-read
                if exc is None:
                    state["order"] = new
                else:
                    state["order"] = getattr(cad, "order", new)
                for f in ref:
                    labels[id(f)] = "?"
        nops += 1
        if not seq_ok(kind, ic):
            return
        # aggregates agree with the members
        if ref and op.get("observe", True):
            want_t = sum(f.tchans for f in ref)
            want_r = ref[-1].t_stop - ref[0].t_start
            want_s = [ref[k].t_start - ref[k - 1].t_stop for k in range(1, len(ref))]
            ctx.check(cad.tchans == want_t and cad.obs_range == want_r and list(cad.slew_times) == want_s, "aggregate",
                      "C18/%s/aggregates" % cname, lambda: "tchans %r/%r obs_range %r/%r" % (cad.tchans, want_t, cad.obs_range, want_r))
        ctx.event(kind, [pid.get(id(f), -1) for f in ref], [label_of(f) for f in ref] if ordered else None)
        if ctx.violations and ctx.stop_on_violation:
            return
    ctx.nontrivial = nops >= 3 and mutated
    ctx.sim_time += 0.0
    ctx.fingerprint = [cname, order if ordered else "", sorted({o["op"] for o in sc["ops"]}), sorted(iclasses),
                       accepted > 0, rejected > 0, len(sc["init"])]
