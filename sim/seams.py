"""Seams: every source of nondeterminism or fault the properties depend on.

All seams are installed from outside, by rebinding module-global names of the
setigen modules concerned (module globals shadow builtins); /repo is not
edited.  If a refactor of setigen bypasses a seam (say ``pathlib.Path.open``)
the run only loses the corresponding fault kind — files live in a *real*
per-run scratch directory, so nothing breaks and no alarm is raised.
"""
import builtins
import errno
import glob as _real_glob
import os
import random
import shutil
import sys
import time as _real_time

import numpy as np

from .core import InjectedInterrupt

_REAL_OPEN = builtins.open
_REAL_DEFAULT_RNG = np.random.default_rng


class SimClock:
    """Replaces the ``time`` module inside setigen.frame / setigen.voltage.backend.

    Starts at a seeded origin and advances by a seeded positive jitter on every
    read; ``jump`` models an NTP step / skew.
    """

    def __init__(self, origin, jitter_seed):
        self.now = float(origin)
        self._rnd = random.Random(jitter_seed)
        self.reads = 0
        self.span = 0.0

    def time(self):
        self.reads += 1
        d = self._rnd.choice((1e-6, 1e-3, 0.25, 1.0, 17.0))
        self.now += d
        self.span += d
        return self.now

    def perf_counter(self):
        return self.time()

    def monotonic(self):
        return self.time()

    def sleep(self, s):
        self.now += s
        self.span += s

    def jump(self, delta):
        self.now += delta
        self.span += abs(delta)

    def __getattr__(self, name):          # anything else: the real module
        return getattr(_real_time, name)


class FaultyFile:
    """Write-side wrapper around a real file object: counts writes, fails one."""

    def __init__(self, seams, f, path):
        self._s = seams
        self._f = f
        self._path = path

    def write(self, b):
        s = self._s
        s.nwrites += 1
        plan = s.write_fault
        if plan is not None and s.nwrites == plan["at_write"]:
            s.write_fault = None
            kind = plan.get("kind", "enospc")
            if plan.get("torn") and len(b) > 1:
                self._f.write(bytes(b)[: len(b) // 2])     # short / torn write
                s.fired("torn_write")
            s.fired(kind)
            raise OSError(errno.ENOSPC if kind == "enospc" else errno.EIO,
                          "injected " + kind, self._path)
        s.bytes_written += len(b)
        return self._f.write(b)

    def __enter__(self):
        return self

    def __exit__(self, *a):
        self._f.close()
        return False

    def __getattr__(self, name):
        return getattr(self._f, name)


class GlobSeam:
    """Replaces the ``glob`` module: real listing, simulated order."""

    def __init__(self, seams):
        self._s = seams

    def glob(self, pattern, *a, **k):
        names = sorted(_real_glob.glob(pattern, *a, **k))
        s = self._s
        s.nglobs += 1
        mode = s.listing
        if mode is None or mode == "sorted" or len(names) < 2:
            return names
        if mode == "reverse":
            out = names[::-1]
        elif isinstance(mode, list):
            # explicit permutation (indices taken modulo, duplicates dropped)
            seen, out = set(), []
            for i in mode:
                i %= len(names)
                if i not in seen:
                    seen.add(i)
                    out.append(names[i])
            out += [n for j, n in enumerate(names) if j not in seen]
        else:
            out = list(names)
            random.Random(int(mode) * 1000003 + s.nglobs).shuffle(out)
        if out != names:
            s.fired("listing_permuted")
            if out[-1] != names[-1]:
                s.fired("listing_last_is_not_highest")
        return out

    def __getattr__(self, name):
        return getattr(_real_glob, name)


class TqdmShim:
    """No-op progress bar: removes terminal state as a hidden input."""

    def __init__(self, *a, **k):
        pass

    def __enter__(self):
        return self

    def __exit__(self, *a):
        return False

    def __iter__(self):
        return iter(())

    def set_description(self, *a, **k):
        pass

    def update(self, *a, **k):
        pass

    def close(self):
        pass

    @staticmethod
    def write(*a, **k):
        pass


class Seams:
    def __init__(self, spec, ctx=None):
        spec = spec or {}
        self.spec = spec
        self.ctx = ctx
        self.clock = SimClock(spec.get("clock_origin", 1.7e9), spec.get("clock_jitter_seed", 1))
        self.entropy_salt = int(spec.get("entropy_salt", 0))
        self.listing = spec.get("listing", "sorted")
        base = os.environ.get("VERIF_SCRATCH") or ("/dev/shm" if os.path.isdir("/dev/shm") else None)
        if base is None:
            import tempfile
            base = tempfile.gettempdir()
        self.scratch = os.path.join(base, "vf-%d-%s" % (os.getpid(), spec.get("scratch", "s")))
        self.nwrites = 0
        self.nopens = 0
        self.nglobs = 0
        self.bytes_written = 0
        self.write_fault = None      # {"at_write": k, "kind": "enospc"|"eio", "torn": bool}
        self.open_fault = None       # {"at_open": k, "kind": "eacces"|"emfile"}
        self.unseeded = []           # call sites of default_rng(None)
        self.installed = False
        self._tracer = None

    # ------------------------------------------------------------------
    def fired(self, kind):
        if self.ctx is not None:
            self.ctx.fired(kind)

    def path(self, name):
        return os.path.join(self.scratch, name)

    # ------------------------------------------------------------------
    def _open(self, file, mode="r", *a, **k):
        self.nopens += 1
        plan = self.open_fault
        if plan is not None and self.nopens == plan["at_open"]:
            self.open_fault = None
            kind = plan.get("kind", "eacces")
            self.fired("open_" + kind)
            raise OSError(errno.EACCES if kind == "eacces" else errno.EMFILE,
                          "injected " + kind, str(file))
        f = _REAL_OPEN(file, mode, *a, **k)
        if "w" in mode or "a" in mode or "+" in mode:
            return FaultyFile(self, f, str(file))
        return f

    def _default_rng(self, seed=None, *a, **k):
        if seed is None:
            fr = sys._getframe(1)
            site = "%s:%s" % (os.path.basename(fr.f_code.co_filename), fr.f_code.co_name)
            self.unseeded.append(site)
            if self.ctx is not None:
                self.ctx.hit("unseeded_draw")
            seed = [self.entropy_salt, len(self.unseeded)]
        return _REAL_DEFAULT_RNG(seed, *a, **k)

    # ------------------------------------------------------------------
    def install(self):
        import setigen
        import setigen.frame
        import setigen.voltage.backend as be
        import setigen.voltage.raw_utils as ru
        import setigen.voltage.waterfall as wf
        os.makedirs(self.scratch, exist_ok=True)
        for mod in (be, ru, wf):
            mod.open = self._open
        g = GlobSeam(self)
        if hasattr(ru, "glob"):
            ru.glob = g
        if hasattr(be, "glob"):
            be.glob = g
        if hasattr(be, "time"):
            be.time = self.clock
        if hasattr(setigen.frame, "time"):
            setigen.frame.time = self.clock
        if hasattr(be, "tqdm"):
            be.tqdm = TqdmShim
        if self.spec.get("chdir"):
            os.chdir(self.scratch)          # the library must not depend on the current working directory
        np.random.default_rng = self._default_rng
        # numpy's legacy global state must not matter: perturb it per seam set
        np.random.seed((self.entropy_salt * 2654435761 + 12345) % (2 ** 32))
        self.installed = True
        return self

    def cleanup(self):
        shutil.rmtree(self.scratch, ignore_errors=True)

    # ------------------------------------------------------------------
    # interrupt injector
    def interrupt_at(self, code_names, at_line_event, files=("setigen",)):
        """Raise InjectedInterrupt just before the j-th line event executed inside
        any function whose code name is in ``code_names`` (or functions they call
        inside setigen files).  Returns a handle with ``.count`` (#line events seen)
        and ``.fired``.  Call ``stop_trace()`` afterwards."""
        h = _TraceHandle(code_names, at_line_event, files, self)
        self._tracer = h
        sys.settrace(h.global_trace)
        return h

    def stop_trace(self):
        sys.settrace(None)
        self._tracer = None


class _TraceHandle:
    def __init__(self, code_names, at, files, seams):
        self.names = set(code_names)
        self.at = at
        self.files = files
        self.count = 0
        self.fired = False
        self.where = None
        self.where_file = None
        self.depth = 0          # >0 while inside a target function
        self._seams = seams

    def _is_target(self, code):
        # names are either bare function names (any library file) or "file.py:function"
        if code.co_name in self.names:
            return self._is_lib(code)
        key = os.path.basename(code.co_filename) + ":" + code.co_name
        return key in self.names and self._is_lib(code)

    def _is_lib(self, code):
        fn = code.co_filename
        return any(("/" + f + "/") in fn for f in self.files)

    def global_trace(self, frame, event, arg):
        if event != "call":
            return None
        code = frame.f_code
        if self._is_target(code):
            self.depth += 1
            return self.local_trace_root
        if self.depth > 0:
            # callables beneath a target: library code and user callbacks (defined by the harness);
            # numpy/astropy internals are not stepped through — an interrupt inside them is
            # indistinguishable from one at the calling library line
            fn = code.co_filename
            if self._is_lib(code) or "/sim/props/" in fn or "/sim/worlds/" in fn:
                return self.local_trace
        return None

    def _line(self, frame):
        self.count += 1
        if self.at is not None and self.count == self.at and not self.fired:
            self.fired = True
            self.where = "%s:%s" % (frame.f_code.co_name, frame.f_lineno)
            self.where_file = os.path.basename(frame.f_code.co_filename)
            self._seams.fired("interrupt")
            raise InjectedInterrupt(self.where)

    def local_trace_root(self, frame, event, arg):
        if event == "line":
            self._line(frame)
        elif event == "return" or event == "exception" and False:
            pass
        if event == "return":
            self.depth -= 1
        return self.local_trace_root

    def local_trace(self, frame, event, arg):
        if event == "line":
            self._line(frame)
        return self.local_trace
