"""Reference models for the voltage pipeline, written from the property
statements and sharing no helper with setigen.

RefPFB    -- FIR + DFT definition of the polyphase filterbank (C08)
RefQuant  -- the quantiser sentence of C09 as code
ref_times -- sample k of a stream is at t0 + k/fs (C10)
chirp     -- closed form of a constant-drift signal (C10)
"""
import math
from fractions import Fraction

import numpy as np
import scipy.signal


# ---------------------------------------------------------------------------
# RefPFB

def ref_window(T, B, window):
    """The documented design: a windowed-sinc low-pass of T*B taps with cut-off
    1/B (in Nyquist units), unit DC gain, scaled by T*B."""
    return scipy.signal.firwin(T * B, cutoff=1.0 / B, window=window, scale=True) * (T * B)


_DFT_CACHE = {}


def _dft(B):
    m = _DFT_CACHE.get(B)
    if m is None:
        b = np.arange(B).reshape(B, 1)
        k = np.arange(B // 2).reshape(1, B // 2)
        m = np.exp(-2j * np.pi * ((b * k) % B) / B) / math.sqrt(B)
        _DFT_CACHE[B] = m
    return m


def ref_pfb(x, T, B, h, m0=0, m1=None):
    """Spectra m0..m1-1 of sequence x by the definition:
    s_n[b] = sum_t x[(n+t)B + b] h[tB + b];  X_n[k] = sum_b s_n[b] e^{-2 pi i bk/B}/sqrt(B), k < B/2.
    A stream of N samples (N multiple of B) defines spectra 0 .. N/B - T - 1
    (the library's count: one fewer than the last complete window allows)."""
    x = np.asarray(x)
    n_avail = len(x) // B - T
    if m1 is None:
        m1 = n_avail
    m1 = min(m1, len(x) // B - T + 1)
    if m1 <= m0:
        return np.zeros((0, B // 2), dtype=complex)
    rows = x[: (len(x) // B) * B].reshape(-1, B)
    hp = np.asarray(h).reshape(T, B)
    cdtype = complex if np.iscomplexobj(rows) else float
    s = np.zeros((m1 - m0, B), dtype=cdtype)
    for t in range(T):
        s += rows[m0 + t: m1 + t] * hp[t]
    return s @ _dft(B)


def pfb_tol(x, h, T, B):
    """Absolute tolerance for comparing an FFT implementation with ref_pfb:
    1e-10 of the largest magnitude any output can have (a seam error is O(1) of it)."""
    x = np.asarray(x)
    mx = float(np.max(np.abs(x))) if x.size else 0.0
    hp = np.abs(np.asarray(h)).reshape(T, B).sum(axis=0).max()
    return 1e-10 * (mx * hp * math.sqrt(B)) + 1e-300


# ---------------------------------------------------------------------------
# RefQuant

def prefix_stats(x, n):
    """Mean and (population) standard deviation of at most n leading entries
    (leading rows for 2-D input).  A prefix whose entries are all equal has
    zero variance by definition."""
    x = np.asarray(x)
    m = min(int(n), len(x))
    p = x[:m]
    if p.size == 0:
        return float("nan"), float("nan")
    mean = float(np.mean(p))
    if np.all(p == p.flat[0]):
        return mean, 0.0
    return mean, float(np.std(p))


def quant_pre(x, data_mean, data_std, target_mean, target_std):
    """Pre-rounding value of the affine map."""
    x = np.asarray(x, dtype=float)
    if data_std == 0:
        return np.full(x.shape, float(target_mean))
    return (target_std / data_std) * (x - data_mean) + target_mean


def quant_round(pre, bits):
    lo, hi = -2 ** (bits - 1), 2 ** (bits - 1) - 1
    return np.clip(np.around(pre), lo, hi).astype(np.int64)


def compare_quantised(got, pre, bits, tie=1e-9):
    """Compare integers with round(pre) clipped; a mismatch of +-1 is tolerated
    iff pre lies within ``tie`` (relative to its magnitude, min absolute 1e-9) of
    a rounding boundary.  Returns (ok, n_ties, first_bad_flat_index)."""
    got = np.asarray(got)
    want = quant_round(pre, bits)
    bad = np.flatnonzero(got.ravel() != want.ravel())
    if bad.size == 0:
        return True, 0, None
    p = np.asarray(pre, dtype=float).ravel()[bad]
    frac = np.abs(p - np.floor(p) - 0.5)
    band = np.maximum(tie, np.abs(p) * 1e-12)
    near = frac <= band
    d = np.abs(got.ravel()[bad].astype(np.int64) - want.ravel()[bad])
    okmask = near & (d <= 1)
    if np.all(okmask):
        return True, int(bad.size), None
    return False, int(np.count_nonzero(okmask)), int(bad[np.flatnonzero(~okmask)[0]])


class RefQuant:
    """Counter-driven refresh: estimates refreshed on calls 0, p, 2p, ... for a
    positive period p and only on the first call otherwise."""

    def __init__(self, target_mean, target_std, bits, period, ncalc):
        self.target_mean = target_mean
        self.target_std = target_std
        self.bits = bits
        self.period = period
        self.ncalc = ncalc
        self.reset()

    def reset(self):
        self.calls = 0
        self.cache = (None, None)

    def refresh_due(self):
        if self.calls == 0:
            return True
        return self.period > 0 and self.calls % self.period == 0

    def pre(self, x, custom_std=None):
        refreshed = False
        if self.refresh_due():
            self.cache = prefix_stats(x, self.ncalc)
            refreshed = True
        self.calls += 1
        std = self.cache[1] if custom_std is None else custom_std
        return quant_pre(x, self.cache[0], std, self.target_mean, self.target_std), refreshed


FWHM = 2 * math.sqrt(2 * math.log(2))


# ---------------------------------------------------------------------------
# RefStream

def exact_times(t0, k0, n, fs):
    """float64 of the exact rational t0 + (k0+i)/fs, i < n  (t0 Fraction)."""
    fs = Fraction(fs)
    return np.array([float(t0 + Fraction(k0 + i) / fs) for i in range(n)])


def chirp(ts, f_start, fch1, drift, level, phase, ascending):
    ph = 2 * np.pi * ((f_start - fch1) * ts + 0.5 * drift * ts ** 2)
    if not ascending:
        ph = -ph
    return level * np.cos(ph + phase)


def chirp_bound(ts, f_start, fch1, drift, level, dt_tol):
    """|d chirp| <= level * (2 pi (|f-fch1| + |drift| t) dt_tol + 16 eps |phase|)."""
    ts = np.abs(np.asarray(ts, dtype=float))
    phase = 2 * np.pi * (abs(f_start - fch1) * ts + 0.5 * abs(drift) * ts ** 2)
    return abs(level) * (2 * np.pi * (abs(f_start - fch1) + abs(drift) * ts) * dt_tol
                         + 16 * np.finfo(float).eps * (phase + 1.0)) + 1e-300
