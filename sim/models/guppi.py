"""RefGuppi — independent parser / writer of the GUPPI RAW block format, from
the statement of C04:

  block  = header cards (80 bytes each: ``KEY(8)= value``), terminated by an
           ``END`` card; zero padding up to the next multiple of 512 bytes iff
           DIRECTIO is non-zero (none if already aligned); then BLOCSIZE data bytes.
  data   = channel-major, then time, then polarisation, then re/im;
           8 bit: (re, im) int8;  4 bit: one byte per complex sample, real in the
           high nibble, imaginary in the low nibble, two's complement.
"""
import numpy as np


class GuppiFormatError(Exception):
    def __init__(self, cls, msg):
        super().__init__(msg)
        self.cls = cls


def parse_value(raw):
    s = raw.strip()
    if s.startswith("'"):
        return s.strip("'").strip()
    try:
        return int(s)
    except ValueError:
        pass
    try:
        return float(s)
    except ValueError:
        return s


def directio_on(hdr):
    v = hdr.get("DIRECTIO", 0)
    try:
        return int(v) != 0
    except (TypeError, ValueError):
        try:
            return int(str(v).strip("' ")) != 0
        except ValueError:
            return False


def parse_file(buf, pad_rule="spec"):
    """Parse a whole file.  ``pad_rule``: "spec" (the format), or — only to
    *classify* a failure — "aligned512" (a full 512-byte pad when already aligned),
    "never", "always" (pad regardless of DIRECTIO).  Returns a list of blocks:
    {offset, cards, header (ordered dict key -> parsed value), raw (key -> raw value string),
     header_bytes, pad, data_offset, data (memoryview)}.
    Raises GuppiFormatError with a classifying ``cls`` when the bytes do not
    parse completely, with no residue."""
    blocks = []
    pos = 0
    n = len(buf)
    mv = memoryview(buf)
    while pos < n:
        start = pos
        hdr, raw = {}, {}
        cards = 0
        while True:
            if pos + 80 > n:
                raise GuppiFormatError("truncated_header", "header of block %d runs past end of file at %d/%d"
                                       % (len(blocks), pos, n))
            card = bytes(mv[pos:pos + 80])
            pos += 80
            cards += 1
            try:
                text = card.decode("ascii")
            except UnicodeDecodeError:
                raise GuppiFormatError("non_ascii_card", "block %d card %d is not ASCII: %r" % (len(blocks), cards, card[:20]))
            if text.startswith("END") and text.strip() == "END":
                break
            if len(text) < 10 or text[8] != "=":
                raise GuppiFormatError("malformed_card", "block %d card %d: %r" % (len(blocks), cards, text[:40]))
            key = text[:8].strip()
            raw[key] = text[9:]
            hdr[key] = parse_value(text[9:])
            if cards > 4096:
                raise GuppiFormatError("no_end_card", "no END card in block %d" % len(blocks))
        header_bytes = pos - start
        pad = 0
        if pad_rule == "spec":
            dio = directio_on(hdr)
            pad = (-header_bytes) % 512 if dio else 0
        elif pad_rule == "aligned512":
            dio = directio_on(hdr)
            pad = (512 - header_bytes % 512) if dio else 0
        elif pad_rule == "always":
            dio = True
            pad = (-header_bytes) % 512
        else:
            dio = False
        if dio:
            if pos + pad > n:
                raise GuppiFormatError("truncated_padding", "padding runs past end of file")
            if any(mv[pos:pos + pad]):
                raise GuppiFormatError("nonzero_padding", "block %d: padding bytes are not zero" % len(blocks))
            pos += pad
        if "BLOCSIZE" not in hdr:
            raise GuppiFormatError("no_blocsize", "block %d has no BLOCSIZE" % len(blocks))
        bs = int(hdr["BLOCSIZE"])
        if pos + bs > n:
            raise GuppiFormatError("truncated_data", "block %d: data (%d bytes at %d) runs past end of file (%d)"
                                   % (len(blocks), bs, pos, n))
        blocks.append({"offset": start, "cards": cards, "header": hdr, "raw": raw, "header_bytes": header_bytes,
                       "pad": pad, "data_offset": pos, "data": mv[pos:pos + bs]})
        pos += bs
    return blocks


def decode_block(data, obsnchan, npol, nbits):
    """-> complex array [obsnchan, time, pol]."""
    a = np.frombuffer(data, dtype=np.int8)
    if nbits == 8:
        a = a.reshape(obsnchan, -1, npol, 2).astype(np.int64)
        return a[..., 0] + 1j * a[..., 1]
    if nbits == 4:
        u = a.view(np.uint8).astype(np.int64).reshape(obsnchan, -1, npol)
        re = u >> 4
        im = u & 15
        re = np.where(re >= 8, re - 16, re)
        im = np.where(im >= 8, im - 16, im)
        return re + 1j * im
    raise ValueError("nbits %r" % (nbits,))


def encode_block(z, nbits):
    """complex integer array [obsnchan, time, pol] -> bytes (inverse of decode_block)."""
    re = np.asarray(z.real, dtype=np.int64)
    im = np.asarray(z.imag, dtype=np.int64)
    if nbits == 8:
        out = np.empty(z.shape + (2,), dtype=np.int8)
        out[..., 0] = re
        out[..., 1] = im
        return out.tobytes()
    if nbits == 4:
        b = ((re & 15) << 4) | (im & 15)
        return b.astype(np.uint8).tobytes()
    raise ValueError(nbits)


def format_card(key, value):
    if isinstance(value, str):
        v = "'%-8s'" % value
        line = "%-8s= %-20s" % (key, v)
    elif isinstance(value, float):
        line = "%-8s= %20s" % (key, repr(value))
    else:
        line = "%-8s= %20s" % (key, value)
    assert len(line) <= 80, line
    return line.ljust(80).encode("ascii")


def write_blocks(headers, datas):
    """Conforming file bytes from a list of header dicts and data byte strings."""
    out = bytearray()
    for hdr, data in zip(headers, datas):
        hb = bytearray()
        for k, v in hdr.items():
            hb += format_card(k, v)
        hb += b"END".ljust(80)
        if directio_on(hdr):
            hb += bytes((-len(hb)) % 512)
        assert int(hdr["BLOCSIZE"]) == len(data)
        out += hb
        out += data
    return bytes(out)
