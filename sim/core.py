"""Core types of the simulator: seeds, run context, violations, digests.

Nothing in here touches setigen.  Everything a run decides comes from the
scenario (a JSON-able dict produced by a property module's ``generate`` from one
``random.Random(run_seed)``); execution never draws from a PRNG of its own.
"""
import hashlib
import json
import math
import random
import struct

import numpy as np


def run_seed(verif_seed, prop, tier, index):
    """One integer decides everything: derive the per-run seed."""
    h = hashlib.sha256(f"{verif_seed}:{prop}:{tier}:{index}".encode()).digest()
    return int.from_bytes(h[:8], "big")


def rng_for(verif_seed, prop, tier, index):
    return random.Random(run_seed(verif_seed, prop, tier, index))


class Violation(Exception):
    """Raised (or recorded) by an oracle."""

    def __init__(self, prop, oracle, signature, detail=""):
        super().__init__(f"{prop} {signature}: {detail}")
        self.prop = prop
        self.oracle = oracle
        self.signature = signature
        self.detail = detail

    def as_dict(self):
        return {"property": self.prop, "oracle": self.oracle,
                "signature": self.signature, "detail": str(self.detail)[:2000]}


class InjectedFault(Exception):
    """Base of everything the simulator injects on purpose."""


class InjectedCallbackError(InjectedFault):
    pass


class InjectedInterrupt(BaseException):
    """Models KeyboardInterrupt / cancellation at an arbitrary line."""


def digest_obj(h, obj):
    """Feed a canonical byte representation of obj into hash h."""
    if obj is None:
        h.update(b"N")
    elif isinstance(obj, bool):
        h.update(b"T" if obj else b"F")
    elif isinstance(obj, (int, np.integer)):
        h.update(b"i" + str(int(obj)).encode())
    elif isinstance(obj, (float, np.floating)):
        h.update(b"f" + struct.pack("<d", float(obj)))
    elif isinstance(obj, complex):
        h.update(b"c" + struct.pack("<dd", obj.real, obj.imag))
    elif isinstance(obj, str):
        h.update(b"s" + obj.encode("utf-8", "replace") + b"\0")
    elif isinstance(obj, (bytes, bytearray, memoryview)):
        h.update(b"b" + str(len(obj)).encode() + b":" + bytes(obj))
    elif isinstance(obj, np.ndarray):
        a = np.ascontiguousarray(obj)
        h.update(b"a" + str(a.dtype).encode() + str(a.shape).encode())
        if a.dtype == object:
            for x in a.ravel():
                digest_obj(h, x)
        else:
            h.update(a.tobytes())
    elif isinstance(obj, (list, tuple)):
        h.update(b"l" + str(len(obj)).encode())
        for x in obj:
            digest_obj(h, x)
    elif isinstance(obj, dict):
        h.update(b"d" + str(len(obj)).encode())
        for k in sorted(obj, key=str):
            digest_obj(h, str(k))
            digest_obj(h, obj[k])
    else:
        h.update(b"r" + repr(type(obj)).encode())


def digest(*objs):
    h = hashlib.sha256()
    for o in objs:
        digest_obj(h, o)
    return h.hexdigest()[:16]


class Ctx:
    """Per-run context handed to a property's ``execute``.

    Collects the event log (sequence number, name, digest of observables),
    violations, reach probes, fired faults and simulated time.  The event
    sequence number is the only notion of order.
    """

    def __init__(self, prop, scenario):
        self.prop = prop
        self.scenario = scenario
        self.seq = 0
        self.events = []           # (seq, name, digest)
        self.violations = []       # Violation dicts
        self.reach = {}
        self.faults = {}           # fault kind -> times fired
        self.sim_time = 0.0        # simulated seconds covered
        self.ties = 0              # tolerated rounding ties
        self.checks = 0            # oracle evaluations
        self.nontrivial = False
        self.fingerprint = None
        self.stop_on_violation = True
        self.ops_done = 0
        self.bigrams = set()
        self._last_op = None
        self.seams = None          # set by runner

    # -- event log -------------------------------------------------------
    def event(self, name, *observables):
        self.seq += 1
        self.events.append((self.seq, name, digest(*observables)))

    def op(self, name):
        """Mark an executed operation (for op-bigram coverage)."""
        self.ops_done += 1
        if self._last_op is not None:
            self.bigrams.add(self._last_op + ">" + name)
        self._last_op = name

    def log_digest(self):
        h = hashlib.sha256()
        for e in self.events:
            h.update(repr(e).encode())
        return h.hexdigest()[:20]

    # -- probes ------------------------------------------------------------
    def hit(self, probe, n=1):
        self.reach[probe] = self.reach.get(probe, 0) + n

    def fired(self, kind, n=1):
        self.faults[kind] = self.faults.get(kind, 0) + n

    # -- oracles -------------------------------------------------------------
    def violation(self, oracle, signature, detail=""):
        v = Violation(self.prop, oracle, signature, detail)
        self.violations.append(v.as_dict())
        self.event("VIOLATION", signature)
        return v

    def check(self, cond, oracle, signature, detail=""):
        self.checks += 1
        if not cond:
            if callable(detail):
                detail = detail()
            self.violation(oracle, signature, detail)
            return False
        return True

    def result(self):
        return {
            "digest": self.log_digest(),
            "nevents": len(self.events),
            "violations": self.violations,
            "reach": self.reach,
            "faults": self.faults,
            "sim_time": self.sim_time,
            "ties": self.ties,
            "checks": self.checks,
            "nontrivial": self.nontrivial,
            "fingerprint": self.fingerprint,
            "ops": self.ops_done,
            "bigrams": sorted(self.bigrams),
            "events": [list(e) for e in self.events] if self.scenario.get("return_events") else None,
        }


# ---------------------------------------------------------------------------
# numeric helpers shared by oracles

def ulp(x):
    x = abs(float(x))
    if x == 0 or not math.isfinite(x):
        return 5e-324
    return math.ulp(x)


def within_ulps(a, b, n, scale=None):
    """|a-b| <= n * ulp(max(|a|,|b|,scale))."""
    a = np.asarray(a, dtype=float)
    b = np.asarray(b, dtype=float)
    m = np.maximum(np.abs(a), np.abs(b))
    if scale is not None:
        m = np.maximum(m, abs(scale))
    tol = n * np.spacing(np.where(m == 0, 5e-324, m))
    return bool(np.all(np.abs(a - b) <= tol))


def jsonable(o):
    """Make numpy scalars etc. JSON serialisable (for replay files)."""
    if isinstance(o, dict):
        return {str(k): jsonable(v) for k, v in o.items()}
    if isinstance(o, (list, tuple)):
        return [jsonable(v) for v in o]
    if isinstance(o, np.integer):
        return int(o)
    if isinstance(o, np.floating):
        return float(o)
    if isinstance(o, np.bool_):
        return bool(o)
    if isinstance(o, np.ndarray):
        return jsonable(o.tolist())
    return o


def dumps(o):
    return json.dumps(jsonable(o), sort_keys=True)


def gen_seed(rng):
    """A seed argument for the library: mostly arbitrary, sometimes one of the values code is tempted to treat
    specially (0 is falsy; 2**32 - 1 and 2**31 sit on integer-width boundaries)."""
    if rng.random() < 0.08:
        return rng.choice([0, 0, 0, 1, 2 ** 32 - 1, 2 ** 31])
    return rng.randrange(1 << 30)
