"""FRAME world: frame lifecycle (create / load / noise / inject / copy / derive /
save) with RefFrame, RefSigproc and signal builders.  Shared by C03, C06, C11,
C12 and C17.

.fil/.h5 I/O goes through blimpy/h5py's C code, which cannot be intercepted from
Python: it runs *real*, in the per-run scratch directory (whose name is a seam,
so that a path leaking into an output shows up in C12's twin diff).
"""
import copy
import hashlib
import math
import os
import struct

import numpy as np

from ..core import digest
from ..core import gen_seed
from ..seams import _REAL_DEFAULT_RNG


# ---------------------------------------------------------------------------
# RefSigproc: independent minimal writer/reader of SIGPROC filterbank files

def _kw(s):
    b = s.encode("ascii")
    return struct.pack("<i", len(b)) + b


def sigproc_angle(x):
    """hours/degrees (float) -> sigproc ddmmss.s double."""
    sign = -1 if x < 0 else 1
    x = abs(x)
    d = int(x)
    m = int((x - d) * 60)
    s = ((x - d) * 60 - m) * 60
    return sign * (d * 10000 + m * 100 + s)


def write_sigproc(path, data, fch1_mhz, foff_mhz, tsamp, tstart_mjd, source_name, nbits=32, rawdatafile=None):
    """data: [tchans, nchans] in *file* channel order."""
    h = bytearray()
    h += _kw("HEADER_START")
    for k, v in (("telescope_id", 6), ("machine_id", 10), ("data_type", 1)):
        h += _kw(k) + struct.pack("<i", v)
    if rawdatafile is not None:
        h += _kw("rawdatafile") + _kw(rawdatafile)
    h += _kw("source_name") + _kw(source_name)
    h += _kw("src_raj") + struct.pack("<d", sigproc_angle(17.5))
    h += _kw("src_dej") + struct.pack("<d", sigproc_angle(-28.25))
    for k, v in (("nbits", nbits), ("nchans", data.shape[1]), ("nifs", 1), ("ibeam", 1)):
        h += _kw(k) + struct.pack("<i", v)
    for k, v in (("tstart", tstart_mjd), ("tsamp", tsamp), ("fch1", fch1_mhz), ("foff", foff_mhz)):
        h += _kw(k) + struct.pack("<d", v)
    h += _kw("HEADER_END")
    with open(path, "wb") as f:
        f.write(bytes(h))
        f.write(np.ascontiguousarray(data, dtype=np.float32).tobytes())


def read_sigproc(path):
    """-> (header dict, data [t, nchans] float32)."""
    with open(path, "rb") as f:
        buf = f.read()
    pos = 0

    def rd_str():
        nonlocal pos
        n = struct.unpack_from("<i", buf, pos)[0]
        pos += 4
        s = buf[pos:pos + n].decode("ascii", "replace")
        pos += n
        return s
    assert rd_str() == "HEADER_START"
    hdr = {}
    ints = {"telescope_id", "machine_id", "data_type", "barycentric", "pulsarcentric", "nbits", "nsamples", "nchans",
            "nifs", "nbeams", "ibeam"}
    strs = {"rawdatafile", "source_name"}
    while True:
        k = rd_str()
        if k == "HEADER_END":
            break
        if k in ints:
            hdr[k] = struct.unpack_from("<i", buf, pos)[0]
            pos += 4
        elif k in strs:
            hdr[k] = rd_str()
        else:
            hdr[k] = struct.unpack_from("<d", buf, pos)[0]
            pos += 8
    data = np.frombuffer(buf, dtype=np.float32, offset=pos)
    nch = hdr["nchans"]
    return hdr, data.reshape(-1, hdr.get("nifs", 1), nch)[:, 0, :]


# ---------------------------------------------------------------------------
# generation

def gen_geom(rng, small=True):
    fch = rng.choice([8, 12, 16, 24, 32, 48, 64]) if small else rng.choice([256, 1024])
    tch = rng.choice([1, 2, 3, 4, 6, 8, 16]) if small else rng.choice([16, 64])
    df = rng.choice([1.0, 2.7939677238464355, 2.7939677238464355, 0.5, 1.3969838619232178, 1e3])
    dt = rng.choice([1.0, 18.253611008, 18.253611008, 2.5, 0.33554432, 1.073741824])
    fch1 = rng.choice([6e9, 6095.214842353016e6, 1.42e9, 8.421e9, 1e8])
    return {"fchans": fch, "tchans": tch, "df": df, "dt": dt, "fch1": fch1, "ascending": rng.random() < 0.5}


ROUTES = ["sizes", "shape", "data", "from_data", "units", "load_fil"]


def gen_frame_spec(rng, geom=None, routes=None):
    g = dict(geom) if geom else gen_geom(rng)
    route = rng.choice(routes or ROUTES)
    spec = {"route": route, "geom": g, "seed": gen_seed(rng),
            "t_start": rng.choice([0.0, 1.7e9, 1.5e9 + 0.25, 59000.5 * 86400 - 3506716800.0 + 40587 * 0]),
            "mjd": rng.choice([None, None, 59000.5, 60123.123456]),
            "source_name": rng.choice([None, "Synthetic", "VOYAGER1", "TIC 1234", "TIC 1234", "X",
                                       # long, descriptive labels are valid source names too
                                       "injection test 0042: drifting narrow-band tone, 3.1 Hz/s, SNR 25, on top of GBT C-band off-source noise, v2"]),
            "content_seed": rng.randrange(1 << 30)}
    return spec


def marker_data(spec):
    """Distinct pixels: noise plus a column marker, so a flip or shift cannot hide."""
    g = spec["geom"]
    if spec.get("content") == "constant":
        # a featureless pedestal: zero deviation, non-zero mean
        return np.full((g["tchans"], g["fchans"]), float(spec.get("content_value", 7.25)))
    r = _REAL_DEFAULT_RNG([spec["content_seed"], 11])
    d = r.normal(10.0, 1.0, size=(g["tchans"], g["fchans"]))
    d += np.arange(g["fchans"])[None, :] * 0.37
    d[:, g["fchans"] // 3] += 25.0
    d += np.arange(g["tchans"])[:, None] * 0.11
    return d


def build_frame(spec, ctx):
    """Create a real Frame by the spec's route.  Returns (frame, info) where info
    records what the statement lets us predict (RefFrame fields)."""
    import setigen as stg
    from astropy import units as u
    from astropy.time import Time
    g = spec["geom"]
    route = spec["route"]
    kw = {"seed": spec["seed"]}
    extra = {}
    if spec.get("mjd") is not None and route not in ("load_fil",):
        extra["mjd"] = spec["mjd"]
        t_start = Time(spec["mjd"], format="mjd").unix
    else:
        extra["t_start"] = spec["t_start"]
        t_start = spec["t_start"]
    source = spec.get("source_name")
    if source is not None:
        extra["source_name"] = source
    else:
        source = "Synthetic"
    data = None
    if route == "sizes":
        fr = stg.Frame(fchans=g["fchans"], tchans=g["tchans"], df=g["df"], dt=g["dt"], fch1=g["fch1"],
                       ascending=g["ascending"], **kw, **extra)
    elif route == "shape":
        fr = stg.Frame(shape=(g["tchans"], g["fchans"]), df=g["df"], dt=g["dt"], fch1=g["fch1"], ascending=g["ascending"],
                       **kw, **extra)
    elif route == "units":
        fr = stg.Frame(fchans=g["fchans"] * u.pixel, tchans=g["tchans"] * u.pixel, df=g["df"] * u.Hz, dt=g["dt"] * u.s,
                       fch1=(g["fch1"] * 1e-6) * u.MHz, ascending=g["ascending"], **kw, **extra)
    elif route == "data":
        data = marker_data(spec)
        fr = stg.Frame(data=data, df=g["df"], dt=g["dt"], fch1=g["fch1"], ascending=g["ascending"], **kw, **extra)
    elif route == "from_data":
        data = marker_data(spec)
        fr = stg.Frame.from_data(g["df"], g["dt"], g["fch1"], g["ascending"], data, metadata={"tag": 7}, seed=spec["seed"])
        # from_data takes no start time / source name: set them as a user would
        fr.t_start = t_start
        fr.source_name = source
    elif route == "load_fil":
        data = marker_data(spec).astype(np.float32)
        path = ctx.seams.path("in_%d.fil" % spec["content_seed"])
        foff = (g["df"] if g["ascending"] else -g["df"]) * 1e-6
        mjd = spec.get("mjd") or 59000.5
        file_data = data if g["ascending"] else data[:, ::-1]
        write_sigproc(path, file_data, g["fch1"] * 1e-6, foff, g["dt"], mjd, source)
        fr = stg.Frame(waterfall=path, seed=spec["seed"])
        t_start = Time(mjd, format="mjd").unix
    else:
        raise ValueError(route)
    info = {"t_start": t_start, "source_name": source, "data0": data, "route": route}
    return fr, info


# ---------------------------------------------------------------------------
# signals

F_KINDS = ["gaussian", "sinc2", "lorentzian", "voigt", "box", "multi"]


def gen_signal(rng, g, allow_box=True, stateful=False):
    span = g["fchans"] * g["df"]
    total = g["tchans"] * g["dt"]
    pk = rng.choice(["constant", "constant", "squared", "sine", "lambda", "scalar", "array"] + (["rfi"] if stateful else []))
    path = {"kind": pk, "idx": rng.choice([0.1, 0.25, 0.5, 0.7, 0.95, -0.2, 1.3]),
            "drift": rng.choice([0.0, 0.5, -0.5, 1.5, -2.0]) * span / max(total, 1e-9) / 4,
            "period": rng.choice([total / 2 + 1, 50.0]), "amp": rng.choice([1.0, 3.0]) * g["df"],
            "spread": rng.choice([1.0, 4.0]) * g["df"], "seed": gen_seed(rng),
            "rfi_type": rng.choice(["stationary", "random_walk"])}
    tk = rng.choice(["constant", "sine", "ramp", "scalar", "array", "list"] + (["pulse"] if stateful else []))
    tprof = {"kind": tk, "level": rng.choice([1.0, 5.0, 0.01]), "period": rng.choice([total / 2 + 1, 33.0]),
             "slope": 1.0 / max(total, 1.0), "seed": gen_seed(rng)}
    opts = {}
    if rng.random() < 0.4:
        opts = {"integrate_path": rng.random() < 0.4, "integrate_t_profile": rng.random() < 0.4,
                "integrate_f_profile": rng.random() < 0.4, "doppler_smearing": rng.random() < 0.3,
                "t_subsamples": rng.choice([2, 3, 10]), "f_subsamples": rng.choice([2, 4, 10]),
                "smearing_subsamples": rng.choice([1, 2, 5])}
        if pk == "array" and opts["doppler_smearing"]:
            opts["doppler_smearing"] = False
    kinds = [k for k in F_KINDS if allow_box or k != "box"]
    if opts.get("integrate_f_profile") or opts.get("integrate_path") or opts.get("doppler_smearing"):
        kinds = [k for k in kinds if k != "box"]
    fprof = {"kind": rng.choice(kinds), "width": rng.choice([0.7, 1.5, 3.0, 6.0]) * g["df"]}
    bp = {"kind": rng.choice(["none", "none", "constant", "slope", "scalar", "array"])}
    return {"path": path, "t": tprof, "f": fprof, "bp": bp, "opts": opts}


def signal_components(sig, g, tchans, fmin, fs_len=None):
    """Fresh component objects -> (path, t_profile, f_profile, bp_profile)."""
    import setigen as stg
    p, t, f, bp = sig["path"], sig["t"], sig["f"], sig["bp"]
    f0 = fmin + p["idx"] * g["fchans"] * g["df"]
    k = p["kind"]
    smear = bool(sig.get("opts", {}).get("doppler_smearing"))
    if k == "constant":
        path = stg.constant_path(f_start=f0, drift_rate=p["drift"])
    elif k == "squared":
        path = stg.squared_path(f_start=f0, drift_rate=p["drift"] * 1e-2)
    elif k == "sine":
        path = stg.sine_path(f_start=f0, drift_rate=p["drift"], period=p["period"], amplitude=p["amp"])
    elif k == "rfi":
        path = stg.simple_rfi_path(f_start=f0, drift_rate=p["drift"], spread=p["spread"], spread_type="uniform",
                                   rfi_type=p["rfi_type"], seed=p["seed"])
    elif k == "lambda":
        d = p["drift"]
        path = (lambda tt: f0 + d * tt + 0 * tt)
    elif k == "scalar":
        path = float(f0)
    else:
        path = f0 + p["drift"] * g["dt"] * np.arange(tchans)
    k = t["kind"]
    if k == "constant":
        tp = stg.constant_t_profile(level=t["level"])
    elif k == "sine":
        tp = stg.sine_t_profile(period=t["period"], phase=0.3, amplitude=0.5 * t["level"], level=t["level"])
    elif k == "ramp":
        lv, sl = t["level"], t["slope"]
        tp = (lambda tt: lv * (1.0 + sl * np.asarray(tt, dtype=float)))
    elif k == "pulse":
        tp = stg.periodic_gaussian_t_profile(pulse_width=t["period"] / 5, period=t["period"], phase=0.1,
                                             pulse_offset_width=t["period"] / 20, pulse_direction="rand", pnum=3,
                                             amplitude=t["level"], level=t["level"], min_level=0, seed=t["seed"])
    elif k == "scalar":
        tp = float(t["level"])
    elif k == "list":
        tp = [t["level"] * (1.0 + 0.5 * i) for i in range(tchans)]
    else:
        tp = t["level"] * (1.0 + 0.25 * np.arange(tchans))
    fk = f["kind"]
    if fk == "voigt":
        fp = stg.voigt_f_profile(f["width"], f["width"] * 0.5)
    elif fk == "multi":
        fp = stg.multiple_gaussian_f_profile(f["width"])
    else:
        fp = {"gaussian": stg.gaussian_f_profile, "box": stg.box_f_profile, "sinc2": stg.sinc2_f_profile,
              "lorentzian": stg.lorentzian_f_profile}[fk](f["width"])
    bk = bp["kind"]
    if bk == "none":
        bpp = None
    elif bk == "constant":
        bpp = stg.constant_bp_profile(level=0.75)
    elif bk == "slope":
        span = g["fchans"] * g["df"]
        bpp = (lambda ff: 0.5 + 0.5 * (np.asarray(ff) - fmin) / span)
    elif bk == "array":
        n = fs_len if fs_len is not None else g["fchans"]
        bpp = 0.5 + 0.5 * np.arange(n) / max(n, 1)
    else:
        bpp = 0.5
    return path, tp, fp, bpp


# ---------------------------------------------------------------------------
# observable state of a frame

def state_digest(fr, with_data=True):
    """Everything C06 says must not change (besides data)."""
    parts = [np.asarray(fr.fs), np.asarray(fr.ts), tuple(fr.shape), float(fr.df), float(fr.dt), float(fr.fch1),
             bool(fr.ascending), float(fr.fmin), float(fr.fmax), int(fr.fchans), int(fr.tchans), float(fr.t_start),
             str(fr.source_name), float(fr.noise_mean), float(fr.noise_std),
             {str(k): (v if isinstance(v, (int, float, str, bool)) else repr(v)) for k, v in fr.metadata.items()},
             repr(fr.rng.bit_generator.state)]
    if with_data:
        parts.append(np.asarray(fr.data))
    return digest(*parts)


def state_fields(fr, with_noise=True):
    d = {"fs": np.array(fr.fs, copy=True), "ts": np.array(fr.ts, copy=True), "ts_ext": np.array(fr.ts_ext, copy=True),
         "shape": tuple(fr.shape), "df": fr.df,
         "dt": fr.dt, "fch1": fr.fch1, "ascending": fr.ascending, "t_start": fr.t_start, "source_name": fr.source_name,
         "metadata": copy.deepcopy(fr.metadata), "rng": repr(fr.rng.bit_generator.state), "fmin": fr.fmin, "fmax": fr.fmax}
    if with_noise:
        # reading the estimates is an observation; callers that must not observe pass with_noise=False
        d["noise_mean"] = fr.noise_mean
        d["noise_std"] = fr.noise_std
    return d


def diff_fields(a, b):
    out = []
    for k in a:
        x, y = a[k], b[k]
        if isinstance(x, np.ndarray):
            same = isinstance(y, np.ndarray) and x.shape == y.shape and np.array_equal(x, y)
        else:
            same = (x == y) or (isinstance(x, float) and isinstance(y, float) and math.isnan(x) and math.isnan(y))
        if not same:
            out.append(k)
    return out
