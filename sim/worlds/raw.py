"""RAW world: antennas + digitiser -> PFB -> requantiser -> RAW writer, and the
readers.  Shared by C02, C04, C12, C14, C20.

The backend talks to its antenna source only through ``get_samples``,
``reset_start`` and a few attributes — a seam the code already has.  The world
wraps ``get_samples`` on the *instance* to obtain the request log; the
reference pipeline is driven by that log (how many samples each request drew,
and what they were), never by the backend's internal window arithmetic.
"""
import copy
import glob as _glob
import math
import os

import numpy as np

from ..models import guppi
from ..models import voltage as mv
from ..core import InjectedCallbackError, InjectedInterrupt
from ..core import gen_seed

WINDOWS = ["hamming", "hann", "boxcar", "blackman"]


# ---------------------------------------------------------------------------
# generation

def gen_source(rng, fs, fch1, ascending, p_noise=0.9):
    s = {"noise": None, "tones": []}
    if rng.random() < p_noise:
        s["noise"] = [0.0, rng.choice([1.0, 1.0, 0.5, 4.0])]
    ntones = rng.choice([0, 0, 1, 1, 2, 3])
    if s["noise"] is None and ntones < 2:
        ntones = 2
    for _ in range(ntones):
        frac = rng.choice([0.0137, 0.0812, 0.137, 0.2113, 0.3331, 0.4127, 0.4913])
        off = frac * fs / 2
        s["tones"].append({"f_start": fch1 + off if ascending else fch1 - off,
                           "drift": rng.choice([0.0, 0.0, 0.0, 10.0, -250.0]),
                           "level": rng.choice([0.5, 1.0, 2.0, 0.05]), "phase": rng.choice([0.0, 0.3, 1.1])})
    return s


def gen_antenna(rng, array=None, dyadic=None):
    if dyadic is None:
        dyadic = rng.random() < 0.5
    if dyadic:
        fs = float(2 ** rng.choice([10, 16, 20]))
        fch1 = float(2 ** rng.choice([20, 30]))
        t_start = rng.choice([0.0, 0.0, 1.0, 2.5])
    else:
        fs = rng.choice([3e9, 2.4e9, 44100.0, 1e6, 187.5e6])
        fch1 = rng.choice([0.0, 6e9, 1.42e9])
        t_start = rng.choice([0.0, 0.0, 12.5])
    ascending = rng.random() < 0.5
    if array is None:
        array = rng.random() < 0.3
    pols = rng.choice([1, 2, 2])
    spec = {"kind": "array" if array else "single", "fs": fs, "fch1": fch1, "ascending": ascending,
            "t_start": t_start, "seed": gen_seed(rng), "pols": pols, "dyadic": dyadic}
    if array:
        n_ant = rng.choice([1, 2, 2, 3])
        spec["n_ant"] = n_ant
        spec["delays"] = [rng.choice([0, 0, 1, 3, 7]) for _ in range(n_ant)]
        spec["bg"] = [gen_source(rng, fs, fch1, ascending, 0.8) for _ in range(pols)]
        spec["streams"] = [[gen_source(rng, fs, fch1, ascending, 0.8) for _ in range(pols)] for _ in range(n_ant)]
    else:
        spec["n_ant"] = 1
        spec["streams"] = [[gen_source(rng, fs, fch1, ascending) for _ in range(pols)]]
    return spec


def gen_elements(rng, tier="quick", common_prefix=False):
    T = rng.choice([1, 2, 2, 3, 4, 4, 8])
    B = rng.choice([4, 8, 8, 16, 16, 32, 64, 12, 10, 26] + ([128, 256] if tier == "thorough" and rng.random() < 0.3 else []))
    bits = rng.choice([8, 8, 4])
    if common_prefix:
        dig = {"period": rng.choice([-2, -1, 0]), "ncalc": rng.choice([1, 2, T * B, 2 * T * B]),
               "fwhm": rng.choice([32, 16, 8]), "bits": 8}
        req = {"period": rng.choice([-2, -1, 0]), "ncalc": rng.choice([1, T]), "fwhm": 32 if bits == 8 else rng.choice([6, 4])}
    else:
        dig = {"period": rng.choice([-2, -1, 0, 1, 1, 2, 3, 4]),
               "ncalc": rng.choice([1, 3, T * B, 2 * T * B + 1, 5 * T * B, 10000]),
               "fwhm": rng.choice([32, 16, 8]), "bits": rng.choice([8, 8, 6])}
        req = {"period": rng.choice([-2, -1, 0, 1, 1, 2, 3, 4]), "ncalc": rng.choice([1, 2, T, 3 * T, 10000]),
               "fwhm": 32 if bits == 8 else rng.choice([6, 4])}
    # the quantisers' target mean: zero by default, but a constructor argument like the others
    dig["tmean"] = rng.choice([0, 0, 0, 1.5, -3, 20])
    req["tmean"] = rng.choice([0, 0, 0, 1.5, -2, 5]) if bits == 8 else rng.choice([0, 0, 0, 1, -1.5])
    return {"T": T, "B": B, "window": rng.choice(WINDOWS), "bits": bits, "dig": dig, "req": req,
            # integer parameters as Python ints or as numpy integers (what arithmetic on arrays hands back)
            # (not int32: with NumPy 2 promotion a user PKTIDX >= 2**31 plus an int32 block length raises
            # OverflowError inside the header arithmetic - a combination I regard as outside the quantified space)
            "ntype": rng.choice(["int", "int", "int", "int64"])}


def gen_interrupt(rng, hi):
    """An interrupt fault: anywhere in block collection and header construction, or (a third of them) within the
    first lines of header construction."""
    if rng.random() < 0.35:
        return {"kind": "interrupt", "at": rng.randint(1, 40), "where": "header"}
    return {"kind": "interrupt", "at": rng.randint(1, hi)}


def gen_backend(rng, ant, el, big_w=False, wide=False):
    """big_w: hundreds of PFB windows per block (SCALE: multi-pass or chunked paths inside one sub-block only engage
    beyond some number of windows).  wide: many channels per block as well, so that a block exceeds 2**20 samples."""
    T, B = el["T"], el["B"]
    # precondition of the array: every request (at least one PFB window) exceeds the largest delay
    if ant.get("delays"):
        ant["delays"] = [min(d, T * B - 1) for d in ant["delays"]]
    nch_max = B // 2
    num_chans = rng.randint(1, min(nch_max, 6))
    start_chan = rng.randint(0, nch_max - num_chans)
    W = rng.choice([1, 2, 3, 4, 5, 6, 7, 8, 12])        # PFB windows per block
    nsub = rng.randint(1, W + 3)
    if big_w:
        W = rng.choice([257, 300, 341, 511, 600, 1023, 1366, 2050, 3000])
        nsub = rng.choice([1, 1, 2, 3, 4, 5, 7, 93])
    if wide:
        # a block of more than 2**20 samples with a channel count that is not a power of two
        num_chans = min(nch_max, rng.choice([3, 5, 6, 12, 24]) if wide is True else rng.choice([24, 28, 20]))
        start_chan = rng.randint(0, nch_max - num_chans)
        per_spectrum = ant["n_ant"] * num_chans * 2 * ant["pols"]
        W = int((2 ** 20 * (rng.choice([1.2, 1.5, 2.3]) if wide is True else float(wide))) / (per_spectrum * T)) + rng.choice([1, 2, 5])
        nsub = rng.choice([1, 2, 3, 5, 8, 32])
    spb = W * T
    bps = 2 * ant["pols"] * el["bits"] // 8
    block_size = spb * ant["n_ant"] * num_chans * bps
    return {"start_chan": start_chan, "num_chans": num_chans, "block_size": block_size, "spb": spb, "W": W,
            "blocks_per_file": rng.choice([1, 2, 2, 3, 4]), "num_subblocks": nsub}


# ---------------------------------------------------------------------------
# construction of the real objects

def _add_sources(stream, src, fault_box=None):
    if src["noise"] is not None:
        stream.add_noise(src["noise"][0], src["noise"][1])
    for t in src["tones"]:
        stream.add_constant_signal(f_start=t["f_start"], drift_rate=t["drift"], level=t["level"], phase=t["phase"])
    g = src.get("gated")
    if g:
        # a pulsed user source: a tone that is exactly silent during every other stretch of g["period"] samples
        import numpy as np
        fs, t0, per, lv, fo = g["fs"], g["t0"], g["period"], g["level"], g["f_off"]

        def gated(ts, fs=fs, t0=t0, per=per, lv=lv, fo=fo):
            ts = np.asarray(ts)
            k = np.floor((ts - t0) * fs + 0.5).astype(np.int64)
            return lv * np.cos(2 * np.pi * fo * (ts - t0)) * ((k // per) % 2 == 0)
        stream.add_signal(gated)


def build_antenna(spec):
    import setigen.voltage as sv
    if spec["kind"] == "array":
        a = sv.MultiAntennaArray(num_antennas=spec["n_ant"], sample_rate=spec["fs"], fch1=spec["fch1"],
                                 ascending=spec["ascending"], num_pols=spec["pols"], delays=list(spec["delays"]),
                                 t_start=spec["t_start"], seed=spec["seed"])
        for p, s in enumerate(a.bg_streams):
            _add_sources(s, spec["bg"][p])
        for i, ant in enumerate(a.antennas):
            for p, s in enumerate(ant.streams):
                _add_sources(s, spec["streams"][i][p])
    else:
        a = sv.Antenna(sample_rate=spec["fs"], fch1=spec["fch1"], ascending=spec["ascending"], num_pols=spec["pols"],
                       t_start=spec["t_start"], seed=spec["seed"])
        for p, s in enumerate(a.streams):
            _add_sources(s, spec["streams"][0][p])
    return a


class RequestLog:
    """Wraps antenna.get_samples on the instance; records every request."""

    def __init__(self, antenna, ctx=None):
        self.antenna = antenna
        self.requests = []          # list of arrays (n_ant, pols, n)
        self.resets = 0
        self.fail_at = None         # raise InjectedCallbackError on the k-th request (1-based)
        self.count = 0
        self.ctx = ctx
        real_get = antenna.get_samples
        real_reset = antenna.reset_start

        def get_samples(n):
            self.count += 1
            if self.fail_at is not None and self.count == self.fail_at:
                self.fail_at = None
                if ctx is not None:
                    ctx.fired("source_callback_error")
                raise InjectedCallbackError("injected source failure on request %d" % self.count)
            v = real_get(n)
            self.requests.append(np.array(v, copy=True))
            return v

        def reset_start():
            self.resets += 1
            return real_reset()

        antenna.get_samples = get_samples
        antenna.reset_start = reset_start

    def mark(self):
        return len(self.requests)

    def since(self, mark):
        return self.requests[mark:]


def _icast(el):
    import numpy as np
    return {"int": int, "int64": np.int64, "int32": np.int32}[el.get("ntype", "int")]


def build_elements(el):
    import setigen.voltage as sv
    c = _icast(el)
    dig = sv.RealQuantizer(target_mean=el["dig"].get("tmean", 0), target_fwhm=el["dig"]["fwhm"], num_bits=c(el["dig"]["bits"]),
                           stats_calc_period=c(el["dig"]["period"]), stats_calc_num_samples=c(el["dig"]["ncalc"]))
    fb = sv.PolyphaseFilterbank(num_taps=c(el["T"]), num_branches=c(el["B"]), window_fn=el["window"])
    req = sv.ComplexQuantizer(target_mean=el["req"].get("tmean", 0), target_fwhm=el["req"]["fwhm"], num_bits=c(el["bits"]),
                              stats_calc_period=c(el["req"]["period"]), stats_calc_num_samples=c(el["req"]["ncalc"]))
    return dig, fb, req


def build_backend(antenna, el, be):
    import setigen.voltage as sv
    dig, fb, req = build_elements(el)
    c = _icast(el)
    return sv.RawVoltageBackend(antenna, digitizer=dig, filterbank=fb, requantizer=req,
                                start_chan=c(be["start_chan"]), num_chans=c(be["num_chans"]), block_size=c(be["block_size"]),
                                blocks_per_file=c(be["blocks_per_file"]), num_subblocks=c(be["num_subblocks"]))


# ---------------------------------------------------------------------------
# reading back

def list_files(stem):
    return sorted(_glob.glob(stem + ".[0-9][0-9][0-9][0-9].raw"))


def parse_recording(stem):
    """-> (files, blocks) with blocks a flat list in file order; each block dict
    gains 'file' (index) and 'path'.  GuppiFormatError propagates."""
    files = list_files(stem)
    blocks = []
    per_file = []
    for i, p in enumerate(files):
        with open(p, "rb") as f:
            buf = f.read()
        bl = guppi.parse_file(buf)
        for b in bl:
            b["file"] = i
            b["path"] = p
        per_file.append(len(bl))
        blocks.extend(bl)
    return files, per_file, blocks


# ---------------------------------------------------------------------------
# reference pipeline

def chunk_spectra(requests, T, B):
    """Spectra produced by each request: the first request of a recording yields
    n/B - T (one window of warm-up), later ones n/B."""
    out = []
    for i, r in enumerate(requests):
        n = r.shape[-1]
        out.append(n // B - (T if i == 0 else 0))
    return out


def ref_pipeline(requests, ant, el, be, digitize, h=None):
    """Reference pre-rounding values of the recorded samples.

    Returns dict with, per (antenna, pol): 'pre_r', 'pre_i' arrays [spectrum, chan]
    (pre-rounding values of the requantiser), 'chunks' (spectra per request),
    'tie_risk' (bool: a digitiser value sat on a rounding boundary).
    """
    T, B = el["T"], el["B"]
    if h is None:
        h = mv.ref_window(T, B, el["window"])
    n_ant, pols = ant["n_ant"], ant["pols"]
    counts = chunk_spectra(requests, T, B)
    out = {"chunks": counts, "pre": {}, "tie_risk": False, "unq": {}}
    for a in range(n_ant):
        for p in range(pols):
            chunks = [np.asarray(r[a][p]) for r in requests]
            if digitize:
                dq = mv.RefQuant(el["dig"].get("tmean", 0), el["dig"]["fwhm"] / mv.FWHM, el["dig"]["bits"], el["dig"]["period"], el["dig"]["ncalc"])
                qs = []
                for c in chunks:
                    pre, _ = dq.pre(np.real(c))
                    frac = np.abs(pre - np.floor(pre) - 0.5)
                    if np.any(frac < 1e-9):
                        out["tie_risk"] = True
                    qs.append(mv.quant_round(pre, el["dig"]["bits"]).astype(float))
                x = np.concatenate(qs)
            else:
                x = np.concatenate(chunks)
            spec = mv.ref_pfb(x, T, B, h)[:, be["start_chan"]:be["start_chan"] + be["num_chans"]]
            out["unq"][(a, p)] = spec
            scale = float(np.max(np.abs(spec))) if spec.size else 0.0
            rq = mv.RefQuant(el["req"].get("tmean", 0), el["req"]["fwhm"] / mv.FWHM, el["bits"], el["req"]["period"], el["req"]["ncalc"])
            iq = mv.RefQuant(el["req"].get("tmean", 0), el["req"]["fwhm"] / mv.FWHM, el["bits"], el["req"]["period"], el["req"]["ncalc"])
            pre_r, pre_i = [], []
            m = 0
            for c in counts:
                blk = spec[m:m + c]
                m += c
                if c <= 0:
                    continue
                pr, _ = rq.pre(blk.real)
                pi, _ = iq.pre(blk.imag)
                # a prefix whose deviation is numerically zero relative to the data (e.g. the
                # imaginary part of a 2-channel, 1-spectrum chunk) is decided by FFT round-off
                # ... including "exactly zero here, 1e-16 there": values that are equal in exact arithmetic (a 1-spectrum
                # x 2-channel chunk of a symmetric input) come out of an FFT equal only to round-off
                for q in (rq, iq):
                    if q.cache[1] is not None and scale > 0 and q.cache[1] <= 1e-9 * scale:
                        out["tie_risk"] = True
                pre_r.append(pr)
                pre_i.append(pi)
            out["pre"][(a, p)] = (np.concatenate(pre_r) if pre_r else np.zeros((0, be["num_chans"])),
                                  np.concatenate(pre_i) if pre_i else np.zeros((0, be["num_chans"])))
    return out


def decoded_stream(blocks, ant, el, be):
    """Recorded samples as [antenna][pol] -> complex array [spectrum, chan]."""
    n_ant, pols = ant["n_ant"], ant["pols"]
    nch = be["num_chans"]
    dec = [guppi.decode_block(b["data"], n_ant * nch, pols, el["bits"]) for b in blocks]   # [antchan, t, pol]
    if not dec:
        return {}
    allb = np.concatenate(dec, axis=1)
    out = {}
    for a in range(n_ant):
        for p in range(pols):
            out[(a, p)] = allb[a * nch:(a + 1) * nch, :, p].T
    return out


def classify_index(m, counts, spb, bpf):
    """Where does spectrum index m sit relative to the seams?"""
    if m == 0:
        return "start"
    if m % (spb * bpf) == 0:
        return "file_seam"
    if m % spb == 0:
        return "block_seam"
    edges = set(np.cumsum(counts).tolist())
    if m in edges:
        return "subblock_seam"
    return "interior"


def compare_samples(ctx, prop, got, ref, el, be, bpf, what="samples"):
    """Oracle A: decoded samples == reference pipeline.  Returns True if equal."""
    counts = ref["chunks"]
    for key in sorted(got):
        g = got[key]
        pr, pi = ref["pre"][key]
        if g.shape != pr.shape:
            ctx.violation(what, "%s/count/recorded_%s_than_pipeline" % (prop, "fewer" if g.shape[0] < pr.shape[0] else "more"),
                          "antenna/pol %s: recorded %s spectra x chans, pipeline produced %s" % (key, g.shape, pr.shape))
            return False
        if ref["tie_risk"]:
            ctx.ties += 1
            continue
        for part, name, pre in ((g.real, "re", pr), (g.imag, "im", pi)):
            gi = np.around(part).astype(np.int64)
            ok, nt, bad = mv.compare_quantised(gi, pre, el["bits"], tie=1e-7)
            ctx.ties += nt
            ctx.checks += 1
            if not ok:
                m, c = divmod(bad, pre.shape[1])
                ctx.violation(what, "%s/%s/first_diff_at_%s/%dbit" % (prop, what, classify_index(m, counts, be["spb"], bpf),
                                                                   el["bits"]),
                              "antenna/pol %s %s part: spectrum %d chan %d: recorded %d, reference pre-rounding %.12g "
                              "(chunks %s, spb %d)" % (key, name, m, c, gi.ravel()[bad], pre.ravel()[bad], counts, be["spb"]))
                return False
    return True


# ---------------------------------------------------------------------------
# record op with faults

def header_arg(spec):
    """Build the header_dict argument from its JSON spec."""
    if spec is None or spec.get("kind") == "default":
        return None
    return dict(spec["cards"])


def do_record(ctx, backend, stem, op, header=None, use_default_header=False):
    """Execute backend.record under the op's fault plan.
    Returns (status, exc): status in {"ok", "fault", "error"}."""
    seams = ctx.seams
    fault = op.get("fault")
    kwargs = {}
    if "num_blocks" in op:
        kwargs.update(num_blocks=op["num_blocks"], length_mode="num_blocks")
    elif "obs_length" in op:
        kwargs.update(obs_length=op["obs_length"], length_mode="obs_length")
    if not use_default_header:
        kwargs["header_dict"] = header if header is not None else {}
    kwargs["digitize"] = op.get("digitize", True)
    kwargs["load_template"] = op.get("template", False)
    kwargs["verbose"] = op.get("verbose", False)
    log = op.get("_log")
    if fault:
        k = fault["kind"]
        if k in ("enospc", "eio"):
            seams.nwrites = 0
            seams.write_fault = {"at_write": fault["at"], "kind": k, "torn": fault.get("torn", False)}
        elif k == "open":
            seams.nopens = 0
            seams.open_fault = {"at_open": fault["at"], "kind": fault.get("errno", "eacces")}
        elif k == "source" and log is not None:
            log.count = 0
            log.fail_at = fault["at"]
    tracer = None
    if fault and fault["kind"] == "interrupt":
        # KeyboardInterrupt / cancellation at an arbitrary line of the recording loop
        # "where": "header" counts line events inside header construction only, so that small counts land in its few
        # lines (faults belong inside the operations that create in-flight state, not spread thinly over everything)
        names = ["backend.py:_make_header"] if fault.get("where") == "header" else \
            ["backend.py:collect_data_block", "backend.py:_make_header"]
        tracer = seams.interrupt_at(names, fault["at"])
    try:
        try:
            backend.record(stem, **kwargs)
        finally:
            if tracer is not None:
                seams.stop_trace()
        status, exc = "ok", None
    except InjectedInterrupt as e:
        status, exc = "fault", e
        if tracer is not None and tracer.where_file != "backend.py":
            # the interrupt landed inside a source request: the antenna's streams may be unevenly advanced, a state
            # the request log does not describe
            ctx.hit("interrupt_inside_source_request")
    except (OSError, InjectedCallbackError) as e:
        injected = isinstance(e, InjectedCallbackError) or "injected" in str(e)
        status, exc = ("fault" if injected else "error"), e
    except Exception as e:
        status, exc = "error", e
    finally:
        planned_unfired = (seams.write_fault is not None) or (seams.open_fault is not None) or (
            log is not None and log.fail_at is not None) or (tracer is not None and not tracer.fired)
        seams.write_fault = None
        seams.open_fault = None
        if log is not None:
            log.fail_at = None
        # NB: an input handle left open by an aborted from_data recording is deliberately NOT closed here: what the
        # library does with it on the next recording is part of what is judged
    if fault and planned_unfired and status == "ok":
        ctx.hit("fault_planned_but_not_reached")
    return status, exc


def innermost_setigen_frame(exc):
    tb = exc.__traceback__
    name = "?"
    while tb is not None:
        fn = tb.tb_frame.f_code.co_filename
        if "/setigen/" in fn:
            name = os.path.basename(fn)[:-3] + "." + tb.tb_frame.f_code.co_name
        tb = tb.tb_next
    return name
