"""Check driver: tiers, determinism self-test, exploration, known findings,
minimisation, replay files, evidence.

Exit codes: 0 property held on everything explored; 1 violation (with a
``VIOLATION property=<id> replay=<path>`` line); 2 harness trouble (never
masquerades as either).
"""
import hashlib
import importlib
import json
import os
import subprocess
import sys
import time

VERIF_DIR = os.path.dirname(os.path.dirname(os.path.abspath(__file__)))
KNOWN_FILE = os.path.join(VERIF_DIR, "known_findings.json")

# Quick tier: a fixed amount of work, not a fixed amount of time.  Each property runs the first QUICK_RUNS[id] seeded
# scenarios (indices 0..N-1 of the stream that VERIF_SEED selects), so what a quick run explores - and what its evidence
# file reports - is a function of (seed, tree) and not of how fast or how freshly booted the machine is.  The quotas
# are what 16 workers complete in about 30 s on the development machine; QUICK_CEILING_S is only a safety net for a
# machine many times slower (the evidence then says so: coverage.ceiling_hit).  VERIF_BUDGET_S / --budget switch to
# "as many runs as fit into this many seconds" (the thorough tier, sweeps and the sensitivity tools work that way).
QUICK_RUNS = {"C02": 6000, "C03": 6000, "C04": 3400, "C06": 4000, "C08": 15000, "C09": 13000, "C10": 6400, "C11": 7600,
              "C12": 2500, "C14": 2500, "C15": 4400, "C16": 900, "C17": 7600, "C18": 10000, "C20": 3000}
QUICK_CEILING_S = 300.0
THOROUGH_BUDGET_S = 900.0


def log(*a):
    print(*a, flush=True)


def _env_setup():
    """Re-exec once so that hash seed and BLAS threading are pinned."""
    want = {"OMP_NUM_THREADS": "1", "OPENBLAS_NUM_THREADS": "1", "MKL_NUM_THREADS": "1",
            "NUMEXPR_NUM_THREADS": "1", "HDF5_USE_FILE_LOCKING": "FALSE", "MPLBACKEND": "Agg",
            # Large arrays come from the process heap and are reused within a run instead of being mapped, zeroed and
            # unmapped once per temporary (a survey-sized scenario allocates ~8 GB in total for a 1.2 GB peak), and are
            # not backed by transparent huge pages: on a freshly restored sandbox, whose memory has never been touched,
            # first-touch faults on 2 MB pages made such a run cost 19 s instead of 4 s - throughput then depended on
            # how long the machine had been up.  Neither setting changes a computed value (digests are identical).
            "MALLOC_MMAP_MAX_": "0", "MALLOC_TRIM_THRESHOLD_": "100000000000", "NUMPY_MADVISE_HUGEPAGE": "0"}
    need = False
    if "PYTHONHASHSEED" not in os.environ:
        os.environ["PYTHONHASHSEED"] = "0"
        need = True
    for k, v in want.items():
        if os.environ.get(k) != v:
            os.environ[k] = v
            need = True
    if need and os.environ.get("_VERIF_REEXEC") != "1":
        os.environ["_VERIF_REEXEC"] = "1"
        os.execv(sys.executable, [sys.executable, "-W", "ignore"] + sys.argv)


def import_setigen():
    repo = os.environ.get("VERIF_REPO", "/repo")
    if repo not in sys.path:
        sys.path.insert(0, repo)
    import warnings
    warnings.filterwarnings("ignore")
    import numpy  # noqa
    import setigen
    import setigen.voltage  # noqa
    here = os.path.realpath(os.path.dirname(setigen.__file__))
    if not here.startswith(os.path.realpath(repo) + os.sep):
        log("HARNESS-ERROR: setigen imported from %s, expected under %s" % (here, repo))
        sys.exit(2)
    return setigen


def load_prop(pid):
    return importlib.import_module("sim.props." + pid)


def load_known():
    if not os.path.exists(KNOWN_FILE):
        return {"open": [], "fixed": []}
    with open(KNOWN_FILE) as f:
        return json.load(f)


def sig_hash(sig):
    return hashlib.sha256(sig.encode()).hexdigest()[:10]


def _gen_job(prop, verif_seed, tier, index):
    from . import core

    def make():
        rng = core.rng_for(verif_seed, prop.ID, tier, index)
        sc = prop.generate(rng, tier)
        sc.setdefault("meta", {})
        sc["meta"].update({"index": index, "run_seed": core.run_seed(verif_seed, prop.ID, tier, index)})
        return sc
    return make


def write_replay(prop, scenario, violation, verif_seed, original_len, minimised_len, known=False):
    d = os.path.join(VERIF_DIR, "replays", "known" if known else "")
    os.makedirs(d, exist_ok=True)
    name = "%s-%s-%s.json" % (prop.ID, sig_hash(violation["signature"]), verif_seed)
    path = os.path.join(d, name)
    doc = {"property": prop.ID, "world": getattr(prop, "WORLD", ""), "verif_seed": verif_seed,
           "pythonhashseed": int(os.environ.get("PYTHONHASHSEED", "0") or 0),
           "scenario": scenario, "violation": violation,
           "original_len": original_len, "minimised_len": minimised_len}
    from .core import jsonable
    with open(path, "w") as f:
        json.dump(jsonable(doc), f, indent=1, sort_keys=True)
    return path


def scenario_len(sc):
    ops = sc.get("ops")
    return len(ops) if isinstance(ops, list) else 1


def replay(path):
    with open(path) as f:
        doc = json.load(f)
    want = str(doc.get("pythonhashseed", 0))
    if os.environ.get("PYTHONHASHSEED") != want:
        os.environ["PYTHONHASHSEED"] = want
        os.environ["_VERIF_REEXEC"] = "1"
        os.execv(sys.executable, [sys.executable, "-W", "ignore"] + sys.argv)
    import_setigen()
    from . import pool
    prop = load_prop(doc["property"])
    res = pool.run_child(prop, doc["scenario"])
    if res.get("harness_error"):
        log("HARNESS-ERROR during replay:\n" + res["harness_error"])
        return 2
    sig = doc["violation"]["signature"]
    for v in res.get("violations", []):
        if v["signature"] == sig:
            log("reproduced: %s\n  %s" % (sig, v["detail"][:600]))
            log("VIOLATION property=%s replay=%s" % (doc["property"], os.path.abspath(path)))
            return 1
    others = [v["signature"] for v in res.get("violations", [])]
    log("REPLAY-DIVERGED: expected %s, got %s" % (sig, others or "no violation"))
    return 2 if others else 0


def digests_only(pid, tier, verif_seed, indices):
    """Fresh-interpreter determinism helper: print index -> digest as JSON."""
    import_setigen()
    from . import pool
    prop = load_prop(pid)
    jobs = [(i, _gen_job(prop, verif_seed, tier, i)) for i in indices]
    nw = int(os.environ.get("VERIF_DIGEST_WORKERS", "8") or 8)
    res, _ = pool.run_many(prop, jobs, nworkers=max(1, min(nw, len(jobs))), keep=lambda k, r: True)
    out = {}
    for i in indices:
        r = res.get(i)
        out[str(i)] = (r[1].get("digest") if r else None)
    print("DIGESTS " + json.dumps(out), flush=True)
    return 0


def check(pid, tier, verif_seed, budget_s=None, nworkers=None, max_runs=None):
    t_start = time.monotonic()
    wall0 = time.time()
    import_setigen()
    from . import core, pool, minimise
    prop = load_prop(pid)
    nworkers = nworkers or int(os.environ.get("VERIF_WORKERS", "16"))
    if budget_s is None:
        budget_s = float(os.environ.get("VERIF_BUDGET_S", "0") or 0) or None
    max_runs = max_runs or int(os.environ.get("VERIF_MAX_RUNS", "0") or 0) or None
    quota = None
    if budget_s is None:
        if tier == "quick":
            # fixed work: the first `quota` scenarios of the seed's stream, under a generous wall-clock ceiling
            quota = max_runs or QUICK_RUNS.get(pid, 3000)
            budget_s = float(os.environ.get("VERIF_CEILING_S", "0") or 0) or QUICK_CEILING_S
        else:
            budget_s = THOROUGH_BUDGET_S
    known = load_known()
    open_known = [k for k in known.get("open", []) if k["property"] == pid]
    known_sigs = {k["signature"] for k in open_known}
    harness_errors = []
    known_seen = {}

    startup = getattr(prop, "startup_checks", None)
    if startup:
        msg = startup()
        if msg:
            log("HARNESS-ERROR: start-up assertion failed: " + msg)
            return 2

    # 1. known findings: re-demonstrate each from its stored replay
    for k in open_known:
        rp = os.path.join(VERIF_DIR, k["replay"])
        demonstrated = False
        if os.path.exists(rp):
            with open(rp) as f:
                doc = json.load(f)
            res = pool.run_child(prop, doc["scenario"])
            demonstrated = any(v["signature"] == k["signature"] for v in res.get("violations", []))
        log("KNOWN-FINDING: property=%s %s%s" % (pid, k["what"],
                                               "" if demonstrated else " [stored replay no longer reproduces]"))
        known_seen[k["signature"]] = 1 if demonstrated else 0

    # 2. enumerated sub-spaces
    jobs = []
    enum = getattr(prop, "enumerated", None)
    enum_count = 0
    if enum:
        for j, sc in enumerate(enum(tier)):
            sc.setdefault("meta", {})["enum"] = j
            jobs.append((("enum", j), sc))
        enum_count = len(jobs)

    # 3. seeded exploration until the budget ends
    ndet = 24 if tier == "quick" else 200
    ndet = int(os.environ.get("VERIF_NDET", ndet))
    est = getattr(prop, "EST_RUN_S", 0.05)
    cap = quota or max_runs or int(max(200, min(4_000_000, budget_s * nworkers / est * 6)))
    for i in range(cap):
        jobs.append((("run", i), _gen_job(prop, verif_seed, tier, i)))
    deadline = t_start + budget_s

    def stop_on(res):
        if res.get("harness_error"):
            return True
        return any(v["signature"] not in known_sigs for v in res.get("violations", []))

    def keep(key, res):
        return key[0] == "run" and key[1] < ndet

    results, agg = pool.run_many(prop, jobs, nworkers=nworkers, deadline=deadline, stop_on=stop_on,
                                 keep=keep, nsamples=1)
    explore_wall = time.monotonic() - t_start

    # 4. determinism self-test: first ndet indices again, other worker count, and a
    #    fresh interpreter under another hash seed
    det = {"seeds": 0, "mismatches": 0, "fresh_interpreter_seeds": 0}
    first_violation = any(stop_on(r[1]) for r in results.values() if r[1])
    det_idx = [i for i in range(ndet) if ("run", i) in results]
    if det_idx and not first_violation:
        jobs2 = [(("run", i), _gen_job(prop, verif_seed, tier, i)) for i in det_idx]
        res2, _ = pool.run_many(prop, jobs2, nworkers=3, keep=lambda k, r: True)
        for i in det_idx:
            a = results[("run", i)][1]
            b = res2.get(("run", i))
            b = b[1] if b else {}
            det["seeds"] += 1
            if a.get("harness_error") or b.get("harness_error"):
                continue
            if a.get("digest") != b.get("digest"):
                det["mismatches"] += 1
                harness_errors.append("HARNESS-NONDETERMINISM: run %d digests %s vs %s" % (i, a.get("digest"), b.get("digest")))
        nfresh = min(len(det_idx), 8 if tier == "quick" else 48)
        if nfresh and os.environ.get("VERIF_SKIP_FRESH") != "1":
            env = dict(os.environ)
            env["PYTHONHASHSEED"] = "4242"
            env["_VERIF_REEXEC"] = "1"
            cmd = [sys.executable, "-W", "ignore", os.path.join(VERIF_DIR, "run_check.py"), "--digests", pid, tier,
                   str(verif_seed), ",".join(str(i) for i in det_idx[:nfresh])]
            try:
                out = subprocess.run(cmd, env=env, capture_output=True, text=True, timeout=600)
                line = [l for l in out.stdout.splitlines() if l.startswith("DIGESTS ")]
                if not line:
                    harness_errors.append("fresh-interpreter determinism run produced no digests: " + out.stderr[-800:])
                else:
                    d = json.loads(line[-1][8:])
                    for i in det_idx[:nfresh]:
                        a = results[("run", i)][1]
                        det["fresh_interpreter_seeds"] += 1
                        if not a.get("harness_error") and d.get(str(i)) != a.get("digest"):
                            det["mismatches"] += 1
                            harness_errors.append("HARNESS-NONDETERMINISM (fresh interpreter, other hash seed): run %d %s vs %s"
                                                  % (i, a.get("digest"), d.get(str(i))))
            except subprocess.TimeoutExpired:
                harness_errors.append("fresh-interpreter determinism run timed out")

    # 5. collect
    new_violations = []     # (key, scenario, violation)
    samples = []
    for key in sorted((k for k in results if k != "__worker_failures__"), key=lambda k: (k[0], k[1])):
        sc, r = results[key]
        if r.get("harness_error"):
            harness_errors.append("%s: %s" % (key, r["harness_error"]))
            continue
        if len(samples) < 3 and r.get("nontrivial") and sc is not None:
            samples.append(_trim(sc))
        for v in r.get("violations", []):
            if v["signature"] in known_sigs:
                known_seen[v["signature"]] = known_seen.get(v["signature"], 0) + 1
            else:
                new_violations.append((key, sc, v))
    if "__worker_failures__" in results:
        harness_errors.append(results["__worker_failures__"][1]["harness_error"])

    exit_code = 0
    reported = []
    if new_violations:
        # one report per distinct signature (at most 3), smallest scenario first
        by_sig = {}
        for key, sc, v in new_violations:
            cur = by_sig.get(v["signature"])
            if cur is None or scenario_len(sc) < scenario_len(cur[1]):
                by_sig[v["signature"]] = (key, sc, v)
        for sig in sorted(by_sig)[:3]:
            key, sc, v = by_sig[sig]
            log("violation found in %s: %s\n  %s" % (key, sig, v["detail"][:800]))
            mini, nruns = minimise.minimise(prop, sc, sig, nworkers=nworkers, log=log)
            # confirm in a fresh child
            res = pool.run_child(prop, mini)
            vv = [x for x in res.get("violations", []) if x["signature"] == sig]
            if not vv:
                mini, vv = sc, [v]
            path = write_replay(prop, mini, vv[0], verif_seed, scenario_len(sc), scenario_len(mini))
            log("VIOLATION property=%s replay=%s" % (pid, path))
            reported.append({"signature": sig, "replay": path})
        exit_code = 1

    # 6. evidence
    wall = time.monotonic() - t_start
    runs_per_hour = agg["runs"] / max(explore_wall, 1e-9) * 3600.0
    zero_probes = [p for p in getattr(prop, "PROBES", []) if agg["reach"].get(p, 0) == 0 and agg["faults"].get(p, 0) == 0]
    if tier == "thorough" and zero_probes:
        log("WARNING: probes stuck at zero: " + ", ".join(zero_probes))
    ev = {
        "property_id": pid,
        "tier": tier,
        "seed": int(verif_seed),
        "level": getattr(prop, "LEVEL", "exploration"),
        "wall_s": round(wall, 3),
        "violations": len(reported),
        "coverage": {
            "evaluations": int(agg["runs"]),
            "work_rule": ("fixed quota: scenarios 0..%d of the stream selected by VERIF_SEED=%s" % (quota - 1, verif_seed)) if quota
                         else "time budget: as many scenarios of the stream, in index order, as started within %.0f s" % budget_s,
            "work_quota": quota,
            "ceiling_hit": bool(quota and exit_code == 0 and not harness_errors and agg["runs"] < enum_count + quota),
            "distinct_nontrivial": int(len(agg["fingerprints"])),
            "rule": getattr(prop, "RULE", ""),
            "samples": samples or [{"note": "no non-trivial run completed"}],
            "exhaustive": False,
            "enumerated_scenarios": enum_count,
            "runs_per_hour": round(runs_per_hour),
            "seeds_per_hour": round(runs_per_hour),
            "workers": nworkers,
            "nontrivial_runs": agg["nontrivial"],
            "ops_executed": agg["ops"],
            "oracle_evaluations": agg["checks"],
            "simulated_time_s": round(agg["sim_time"], 6),
            "simulated_clock_span_s": round(agg["clock_span"], 3),
            "faults_fired": agg["faults"],
            "probes": agg["reach"],
            "probes_at_zero": zero_probes,
            "tolerated_rounding_ties": agg["ties"],
            "distinct_op_bigrams": len(agg["bigrams"]),
            "distinct_state_measure": "number of distinct abstract fingerprints (tuple of configuration classes x history class x fault class, see DESIGN.md section 4) among runs that executed at least one non-trivial oracle",
            "determinism_selftest": det,
            "known_findings_seen": known_seen,
            "unseeded_draw_sites": sorted(agg["unseeded"]),
            "components": getattr(prop, "COMPONENTS", {}),
            "harness_errors": len(harness_errors),
            "timeouts": agg["timeouts"],
            "reported": reported,
        },
        "assumptions": getattr(prop, "ASSUMPTIONS", []),
    }
    os.makedirs(os.path.join(VERIF_DIR, "evidence"), exist_ok=True)
    with open(os.path.join(VERIF_DIR, "evidence", pid + ".json"), "w") as f:
        json.dump(core.jsonable(ev), f, indent=1, sort_keys=True)

    log("%s tier=%s seed=%s: %d runs (%d non-trivial, %d fingerprints), %d oracle evaluations, faults %s, %.1fs"
        % (pid, tier, verif_seed, agg["runs"], agg["nontrivial"], len(agg["fingerprints"]), agg["checks"],
           agg["faults"], wall))
    if ev["coverage"]["ceiling_hit"]:
        log("NOTE: the wall-clock ceiling of %.0f s ended the quick run after %d of %d scenarios" % (
            budget_s, agg["runs"], enum_count + quota))
    if harness_errors:
        for h in harness_errors[:5]:
            log("HARNESS-ERROR: " + h[:3000])
        if exit_code == 0:
            return 2
    if agg["runs"] == 0 and exit_code == 0:
        log("HARNESS-ERROR: no run completed")
        return 2
    return exit_code


def _trim(sc, limit=6000):
    s = json.dumps(sc, sort_keys=True, default=str)
    if len(s) <= limit:
        return sc
    out = dict(sc)
    ops = out.get("ops")
    if isinstance(ops, list) and len(ops) > 6:
        out["ops"] = ops[:6] + [{"op": "... %d more ops" % (len(ops) - 6)}]
    s = json.dumps(out, sort_keys=True, default=str)
    if len(s) > limit:
        return {"truncated": s[:limit]}
    return out


def main(argv):
    _env_setup()
    if len(argv) >= 2 and argv[0] == "--replay":
        return replay(argv[1])
    if len(argv) >= 2 and argv[0] == "--c12-batch":
        import_setigen()
        from .props import C12
        return C12.batch_main(argv[1])
    if len(argv) >= 5 and argv[0] == "--digests":
        return digests_only(argv[1], argv[2], int(argv[3]), [int(x) for x in argv[4].split(",") if x])
    pid = None
    tier = os.environ.get("VERIF_TIER", "quick")
    i = 0
    budget = None
    max_runs = None
    while i < len(argv):
        a = argv[i]
        if a == "--tier":
            tier = argv[i + 1]
            i += 2
        elif a == "--replay":
            return replay(argv[i + 1])
        elif a == "--budget":
            budget = float(argv[i + 1])
            i += 2
        elif a == "--max-runs":
            max_runs = int(argv[i + 1])
            i += 2
        else:
            pid = a
            i += 1
    if not pid:
        log("usage: check <property id> [--tier quick|thorough] | check --replay <file>")
        return 2
    if tier not in ("quick", "thorough"):
        tier = "quick"
    seed = int(os.environ.get("VERIF_SEED", "0") or 0)
    return check(pid, tier, seed, budget_s=budget, max_runs=max_runs)
