"""Process isolation: one forked child per run.

The parent imports numpy/astropy/blimpy/setigen once and never executes a
setigen call.  ``run_child`` forks, the child installs the seams, executes the
scenario, writes its result as JSON to a pipe and ``_exit``s.  ``run_many``
shards a list of jobs over N worker processes, each of which forks one child
per job.  A run's result therefore cannot depend on which worker ran it.
"""
import fcntl
import json
import os
import select
import shutil
import signal
import struct
import sys
import time
import traceback

from . import core

RUN_TIMEOUT_S = float(os.environ.get("VERIF_RUN_TIMEOUT_S", "120"))


def _child_main(wfd, prop_mod, scenario, seam_override=None):
    """Runs in the forked child.  Never returns."""
    res = None
    seams = None
    try:
        import faulthandler
        import logging
        logging.disable(logging.CRITICAL)
        if os.environ.get("VERIF_DEBUG") != "1":
            # blimpy and tqdm chatter on stdout/stderr; the child's verdict travels over the pipe
            dn = os.open(os.devnull, os.O_WRONLY)
            os.dup2(dn, 1)
            os.dup2(dn, 2)
        faulthandler.enable()
        from .seams import Seams
        ctx = core.Ctx(prop_mod.ID, scenario)
        spec = dict(scenario.get("seams", {}))
        if seam_override:
            spec.update(seam_override)
        seams = Seams(spec, ctx)
        ctx.seams = seams
        if getattr(prop_mod, "INSTALL_SEAMS", True):
            seams.install()
        try:
            prop_mod.execute(scenario, ctx)
        except core.Violation as v:          # raised to abort the run early
            if not any(x["signature"] == v.signature for x in ctx.violations):
                ctx.violations.append(v.as_dict())
        except Exception as e:
            # An exception raised *inside the library* on an input the generator considers valid is a
            # verdict about the library ("exceptions escaping the library are violations"), not harness
            # trouble; anything raised by harness code itself stays a harness error.
            where = _raised_in_library(e)
            if where is None:
                raise
            ctx.violation("unhandled", "%s/unhandled/raises:%s@%s" % (prop_mod.ID, type(e).__name__, where),
                          "".join(traceback.format_exception(type(e), e, e.__traceback__))[-1500:])
        res = ctx.result()
        res["unseeded"] = sorted(set(seams.unseeded))
        res["clock_span"] = seams.clock.span
    except BaseException as e:     # harness trouble, never a verdict
        res = {"harness_error": "".join(traceback.format_exception(type(e), e, e.__traceback__))[-4000:]}
    finally:
        try:
            sys.settrace(None)
            if seams is not None:
                seams.cleanup()
        except BaseException:
            pass
    try:
        data = core.dumps(res).encode()
        off = 0
        while off < len(data):
            off += os.write(wfd, data[off:off + 65536])
        os.close(wfd)
    finally:
        os._exit(0)


def _raised_in_library(exc):
    """'module.function' of the deepest setigen frame if the exception was raised in (or beneath) library
    code called by the harness; None if the deepest frame that is either harness or library code is harness
    code.  Frames of numpy/scipy/astropy/blimpy beneath the library count for the library."""
    frames = []
    tb = exc.__traceback__
    while tb is not None:
        frames.append(tb.tb_frame)
        tb = tb.tb_next
    for fr in reversed(frames):
        fn = fr.f_code.co_filename
        if "/verif/sim/" in fn or fn.endswith("run_check.py"):
            return None
        if "/setigen/" in fn:
            return os.path.basename(fn)[:-3] + "." + fr.f_code.co_name
    return None


def run_child(prop_mod, scenario, timeout=None, seam_override=None):
    """Fork a child, execute the scenario there, return its result dict."""
    timeout = timeout or RUN_TIMEOUT_S
    rfd, wfd = os.pipe()
    sys.stdout.flush()
    sys.stderr.flush()
    pid = os.fork()
    if pid == 0:
        os.close(rfd)
        _child_main(wfd, prop_mod, scenario, seam_override)
    os.close(wfd)
    chunks = []
    deadline = time.monotonic() + timeout
    timed_out = False
    while True:
        left = deadline - time.monotonic()
        if left <= 0:
            timed_out = True
            break
        r, _, _ = select.select([rfd], [], [], min(left, 1.0))
        if r:
            b = os.read(rfd, 1 << 16)
            if not b:
                break
            chunks.append(b)
    os.close(rfd)
    if timed_out:
        try:
            os.kill(pid, signal.SIGKILL)
        except OSError:
            pass
    _, status = os.waitpid(pid, 0)
    # children may have left a scratch dir behind if killed
    _sweep_scratch(pid)
    if timed_out:
        return {"harness_error": "HARNESS-TIMEOUT after %.0fs" % timeout, "timeout": True}
    raw = b"".join(chunks)
    if not raw:
        return {"harness_error": "child died without a result (status %r)" % (status,)}
    try:
        return json.loads(raw)
    except ValueError as e:
        return {"harness_error": "bad child result: %r" % (e,)}


def _sweep_scratch(pid):
    base = os.environ.get("VERIF_SCRATCH") or ("/dev/shm" if os.path.isdir("/dev/shm") else None)
    if base is None:
        import tempfile
        base = tempfile.gettempdir()
    pref = "vf-%d-" % pid
    try:
        for n in os.listdir(base):
            if n.startswith(pref):
                shutil.rmtree(os.path.join(base, n), ignore_errors=True)
    except OSError:
        pass


def new_agg():
    return {"runs": 0, "nontrivial": 0, "checks": 0, "ties": 0, "ops": 0, "sim_time": 0.0, "clock_span": 0.0,
            "reach": {}, "faults": {}, "fingerprints": {}, "bigrams": {}, "timeouts": 0, "unseeded": {},
            "wall": 0.0}


def fold(agg, r):
    """Fold one run result into an aggregate (done in the worker, so that a
    thorough run with 10^6 results never holds them all in memory)."""
    agg["runs"] += 1
    agg["checks"] += r.get("checks", 0)
    agg["ties"] += r.get("ties", 0)
    agg["ops"] += r.get("ops", 0)
    agg["sim_time"] += r.get("sim_time", 0.0)
    agg["clock_span"] += r.get("clock_span", 0.0)
    agg["wall"] += r.get("wall", 0.0)
    for k, v in r.get("reach", {}).items():
        agg["reach"][k] = agg["reach"].get(k, 0) + v
    for k, v in r.get("faults", {}).items():
        agg["faults"][k] = agg["faults"].get(k, 0) + v
    for b in r.get("bigrams", []):
        agg["bigrams"][b] = 1
    for u in r.get("unseeded", []):
        agg["unseeded"][u] = 1
    if r.get("nontrivial"):
        agg["nontrivial"] += 1
        fp = r.get("fingerprint")
        if fp is not None:
            agg["fingerprints"][json.dumps(fp, sort_keys=True)] = 1


def merge_agg(a, b):
    for k in ("runs", "nontrivial", "checks", "ties", "ops", "sim_time", "clock_span", "timeouts", "wall"):
        a[k] += b.get(k, 0)
    for k in ("reach", "faults"):
        for kk, v in b.get(k, {}).items():
            a[k][kk] = a[k].get(kk, 0) + v
    for k in ("fingerprints", "bigrams", "unseeded"):
        a[k].update(b.get(k, {}))


def run_many(prop_mod, jobs, nworkers=16, deadline=None, stop_on=None, keep=None, nsamples=0):
    """jobs: list of (key, scenario-or-callable).  A callable is invoked in the
    worker (so generation is sharded too) and must return the scenario.

    Returns (results, agg): ``results`` maps key -> (scenario, result) for the
    runs worth keeping individually (``keep(key, result)`` true, any violation or
    harness error, and - if ``nsamples`` - the non-trivial runs among the first 48 jobs);
    ``agg`` is the fold of *all* results that completed without harness error.
    ``stop_on(result)`` true => all workers stop early.  ``deadline`` is a
    time.monotonic value after which no new run is started.
    """
    agg_total = new_agg()
    if not jobs:
        return {}, agg_total
    nworkers = max(1, min(nworkers, len(jobs)))
    workdir = _mk_workdir()
    stopfile = os.path.join(workdir, "stop")
    # Jobs are handed out in index order from one shared counter (a locked 8-byte file), not by a fixed stride: the set of
    # runs executed is then always a prefix of the job list, whatever a run costs and however fast the machine is, and one
    # expensive run does not hold up the jobs behind it.  (Which worker executes a run cannot matter: every run is a
    # fresh fork of a pristine worker.)
    ctr_path = os.path.join(workdir, "next")
    with open(ctr_path, "wb") as f:
        f.write(struct.pack("<q", 0))
    pids = []
    sys.stdout.flush()
    sys.stderr.flush()
    for w in range(nworkers):
        pid = os.fork()
        if pid == 0:
            code = 0
            try:
                out = open(os.path.join(workdir, "res-%d.jsonl" % w), "w")
                agg = new_agg()
                cfd = os.open(ctr_path, os.O_RDWR)
                while True:
                    if deadline is not None and time.monotonic() >= deadline:
                        break
                    if os.path.exists(stopfile):
                        break
                    j = _take(cfd)
                    if j >= len(jobs):
                        break
                    key, sc = jobs[j]
                    t0 = time.monotonic()
                    try:
                        if callable(sc):
                            sc = sc()
                        res = run_child(prop_mod, sc)
                    except BaseException as e:
                        if callable(sc):
                            sc = None
                        res = {"harness_error": "worker: " + "".join(
                            traceback.format_exception(type(e), e, e.__traceback__))[-3000:]}
                    res["wall"] = time.monotonic() - t0
                    bad = bool(res.get("harness_error"))
                    if not bad:
                        fold(agg, res)
                    elif res.get("timeout"):
                        agg["timeouts"] += 1
                    # samples: non-trivial runs among the first few dozen jobs (a function of the job list, not of timing)
                    is_sample = bool(not bad and res.get("nontrivial") and nsamples and j < 48)
                    if bad or res.get("violations") or is_sample or (keep is not None and keep(key, res)):
                        full = bad or res.get("violations") or is_sample
                        out.write(core.dumps({"key": key, "scenario": sc if full else None,
                                              "result": res if full else {"digest": res.get("digest")}}) + "\n")
                        out.flush()
                    if stop_on is not None and stop_on(res):
                        open(stopfile, "w").close()
                        break
                out.write(core.dumps({"agg": agg}) + "\n")
                out.close()
            except BaseException:
                traceback.print_exc()
                code = 3
            finally:
                os._exit(code)
        pids.append(pid)
    bad = 0
    for pid in pids:
        _, st = os.waitpid(pid, 0)
        if st != 0:
            bad += 1
    results = {}
    for w in range(nworkers):
        p = os.path.join(workdir, "res-%d.jsonl" % w)
        if os.path.exists(p):
            with open(p) as f:
                for line in f:
                    try:
                        d = json.loads(line)
                    except ValueError:
                        continue
                    if "agg" in d:
                        merge_agg(agg_total, d["agg"])
                    else:
                        results[_freeze(d["key"])] = (d["scenario"], d["result"])
    shutil.rmtree(workdir, ignore_errors=True)
    if bad:
        results["__worker_failures__"] = (None, {"harness_error": "%d worker(s) failed" % bad})
    return results, agg_total


def _take(fd):
    """Next job index from the shared counter."""
    fcntl.flock(fd, fcntl.LOCK_EX)
    try:
        j = struct.unpack("<q", os.pread(fd, 8, 0))[0]
        os.pwrite(fd, struct.pack("<q", j + 1), 0)
    finally:
        fcntl.flock(fd, fcntl.LOCK_UN)
    return j


def _freeze(k):
    return tuple(k) if isinstance(k, list) else k


def _mk_workdir():
    import tempfile
    base = os.environ.get("VERIF_SCRATCH") or ("/dev/shm" if os.path.isdir("/dev/shm") else tempfile.gettempdir())
    return tempfile.mkdtemp(prefix="vfpool-", dir=base)
