"""Fill the sensitivity and seeded tables of DESIGN.md section 11 from the result files."""
import glob, json, os, re
HERE = os.path.dirname(os.path.dirname(os.path.abspath(__file__)))
p = os.path.join(HERE, "DESIGN.md")
s = open(p).read()

def table_sens():
    f = os.path.join(HERE, "sensitivity", "results.json")
    if not os.path.exists(f):
        return "(not run yet)"
    rs = json.load(open(f))
    out = ["| mutant | property | needs | result | first signature |", "|---|---|---|---|---|"]
    for r in sorted(rs, key=lambda r: (r["property"], r["id"])):
        sig = (r.get("signatures") or [""])[0]
        res = r["status"] + (" (replay reproduces)" if r.get("replay_reproduces") else "")
        out.append("| %s | %s | %s | %s | `%s` |" % (r["id"], r["property"], (r.get("needs") or "")[:90], res, sig))
    det = sum(1 for r in rs if r["status"] == "DETECTED")
    eqv = sum(1 for r in rs if r["status"] == "EQUIVALENT")
    out.append("")
    out.append("%d of %d non-equivalent mutants detected within a 20 s quick budget (%d turned out to be equivalent and are listed as such)." % (det, len(rs) - eqv, eqv))
    return "\n".join(out)

def table_seeded():
    out = ["| id | breaks | change | needs to manifest | confirmed | caught by | note |", "|---|---|---|---|---|---|---|"]
    for d in sorted(glob.glob(os.path.join(HERE, "seeded", "*", "meta.json"))):
        m = json.load(open(d))
        sigs = []
        for pr, r in m.get("checks", {}).items():
            if r.get("detected"):
                sigs.append("%s `%s`" % (pr, (r.get("signatures") or [""])[0]))
        out.append("| %s | %s | %s | %s | %s | %s | %s |" % (m["id"], m["breaks_property"], m.get("description", ""), m.get("needs_to_manifest", ""),
                   "yes" if m.get("confirmed") else "NO", "; ".join(sigs) or "**missed**", m.get("history", "")))
    return "\n".join(out)

def put(marker, text):
    global s
    a = "<!-- %s -->" % marker
    b = "<!-- /%s -->" % marker
    if b in s:
        s = re.sub(re.escape(a) + ".*?" + re.escape(b), lambda m: a + "\n" + text + "\n" + b, s, flags=re.S)
    else:
        s = s.replace(a, a + "\n" + text + "\n" + b)

put("SENSITIVITY-TABLE", table_sens())
put("SEEDED-TABLE", table_seeded())
open(p, "w").write(s)
print("tables updated")
