"""Determinism soak: for every property, N run indices are executed
  (a) in this interpreter with 16 workers,
  (b) in this interpreter with 5 workers,
  (c) in a fresh interpreter under PYTHONHASHSEED=12345,
  (d) in a fresh interpreter under PYTHONHASHSEED=987,
and the full event-log digests are compared.  Any difference is a determinism bug in
the harness (or, for C12, in the library) and is printed.  Results: sensitivity/determinism.json

usage: tools/determinism_soak.py [--n 200] [--tier quick] [--seed 0] [--only C02,C12]
"""
import json
import os
import subprocess
import sys

HERE = os.path.dirname(os.path.dirname(os.path.abspath(__file__)))
PROPS = ["C02", "C03", "C04", "C06", "C08", "C09", "C10", "C11", "C12", "C14", "C15", "C16", "C17", "C18", "C20"]


def digests(pid, tier, seed, idx, hashseed, workers):
    env = dict(os.environ, PYTHONHASHSEED=str(hashseed), _VERIF_REEXEC="1", OMP_NUM_THREADS="1", OPENBLAS_NUM_THREADS="1",
               VERIF_DIGEST_WORKERS=str(workers))
    p = subprocess.run([sys.executable if sys.executable.startswith("/venv") else "/venv/bin/python", "-W", "ignore",
                        os.path.join(HERE, "run_check.py"), "--digests", pid, tier, str(seed), ",".join(map(str, idx))],
                       env=env, capture_output=True, text=True, timeout=3600)
    line = [l for l in p.stdout.splitlines() if l.startswith("DIGESTS ")]
    if not line:
        raise RuntimeError(p.stderr[-1500:] or p.stdout[-1500:])
    return json.loads(line[-1][8:])


def main(argv):
    n, tier, seed, only = 200, "quick", 0, None
    for i, a in enumerate(argv):
        if a == "--n":
            n = int(argv[i + 1])
        if a == "--tier":
            tier = argv[i + 1]
        if a == "--seed":
            seed = int(argv[i + 1])
        if a == "--only":
            only = argv[i + 1].split(",")
    out = {}
    bad = 0
    for pid in (only or PROPS):
        idx = list(range(n))
        variants = {"hash0_w16": (0, 16), "hash0_w5": (0, 5), "hash12345_w8": (12345, 8), "hash987_w11": (987, 11)}
        res = {k: digests(pid, tier, seed, idx, hs, w) for k, (hs, w) in variants.items()}
        base = res["hash0_w16"]
        mism = []
        none = sum(1 for i in idx if base.get(str(i)) is None)
        for k, r in res.items():
            for i in idx:
                if r.get(str(i)) != base.get(str(i)):
                    mism.append((k, i))
        out[pid] = {"indices": n, "variants": list(variants), "mismatches": len(mism), "runs_without_digest": none, "examples": mism[:5]}
        bad += len(mism)
        print(pid, "indices", n, "mismatches", len(mism), "no-digest", none, mism[:3], flush=True)
    os.makedirs(os.path.join(HERE, "sensitivity"), exist_ok=True)
    json.dump({"tier": tier, "seed": seed, "results": out}, open(os.path.join(HERE, "sensitivity", "determinism.json"), "w"), indent=1)
    print("total mismatches:", bad)
    return 1 if bad else 0


if __name__ == "__main__":
    sys.exit(main(sys.argv[1:]))
