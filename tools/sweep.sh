#!/bin/sh
# False-alarm sweep: every quick check under several VERIF_SEED values on the current tree.
cd "$(dirname "$0")/.." || exit 2
SEEDS="${SEEDS:-1 2 3}"
# BUDGET unset: the plain quick command (fixed work quota per property); BUDGET=<s>: time-bounded exploration instead
BUDGET="${BUDGET:-}"
for s in $SEEDS; do
  for p in C02 C03 C04 C06 C08 C09 C10 C11 C12 C14 C15 C16 C17 C18 C20; do
    out=$(VERIF_SEED=$s VERIF_BUDGET_S=$BUDGET VERIF_SKIP_FRESH=${SKIP_FRESH:-0} ./check $p --tier quick 2>&1)
    rc=$?
    echo "seed=$s $p exit=$rc $(echo "$out" | grep -E 'tier=quick' | tail -1 | cut -c1-110)"
    if [ $rc -ne 0 ]; then echo "$out" | grep -E "VIOLATION|violation found|HARNESS" | head -5; fi
  done
done
