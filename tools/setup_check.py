"""setup_cmd: nothing is downloaded or installed; verify the interpreter can import
setigen from /repo and byte-compile the simulator."""
import compileall, os, sys
HERE = os.path.dirname(os.path.dirname(os.path.abspath(__file__)))
repo = os.environ.get("VERIF_REPO", "/repo")
sys.path.insert(0, repo)
import warnings
warnings.filterwarnings("ignore")
import setigen, numpy, scipy, astropy, blimpy, h5py  # noqa
assert os.path.realpath(setigen.__file__).startswith(os.path.realpath(repo)), setigen.__file__
ok = compileall.compile_dir(os.path.join(HERE, "sim"), quiet=1)
os.makedirs(os.path.join(HERE, "evidence"), exist_ok=True)
os.makedirs(os.path.join(HERE, "replays"), exist_ok=True)
print("setup ok" if ok else "compile failed")
sys.exit(0 if ok else 1)
