#!/bin/sh
# Re-run every recorded seeded change against /repo itself (git apply; checks; git checkout -- .), one after another.
# usage: tools/seeded_rerun.sh [budget] [ids...]     Never run while anything else uses /repo.
cd "$(dirname "$0")/.." || exit 2
B="${1:-30}"; shift
IDS="$*"
[ -z "$IDS" ] && IDS=$(ls seeded | grep -E '^C[0-9]+-[a-z]$')
for id in $IDS; do
  props=$(/venv/bin/python -c "import json;m=json.load(open('seeded/$id/meta.json'));b=m['breaks_property'];print(','.join([b]+sorted(set(m.get('caught_by',[]))-{b})))")
  echo "== $id props=$props"
  /venv/bin/python tools/seeded.py "$id" --from /nonexistent --budget "$B" --props "$props" --no-tests 2>&1 | grep -E "demo:|check |caught by|PATCH|refusing|WARNING|apply failed" | cut -c1-260
done
git -C /repo status --porcelain
