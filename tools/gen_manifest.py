"""Regenerate MANIFEST.json from the property modules present in sim/props."""
import json, os, sys, importlib
HERE = os.path.dirname(os.path.dirname(os.path.abspath(__file__)))
sys.path.insert(0, HERE)

NA = {
 "C01": "pure function of (frame geometry, four components, flags): no state survives the call and the path reads no clock, entropy, file or listing; nothing to schedule, time or fault (DESIGN.md section 6)",
 "C05": "axis construction and index<->frequency conversion are pure arithmetic on constructor arguments; no schedule, clock, I/O or history in the statement (DESIGN.md section 6)",
 "C07": "tone/bin registration is a pure function of (sample rate, branches, start channel, orientation, tone); its framing side is decided under C04 (DESIGN.md section 6)",
 "C13": "the constant-signal helper is a pure function compared with another pure function; no schedule, fault or history (DESIGN.md section 6)",
 "C19": "the splitters are pure functions of (header, sizes); the files they read/write involve no history or fault the statement speaks about (DESIGN.md section 6)",
}


META = {
 "C02": ("deterministic simulation: seeded partition schedule (sub-blocks x blocks x files), write/open/source faults and line-level interrupts with retry (half of them over the same stem), a near-twin predecessor configuration recording first in the same process, num_subblocks re-assigned between recordings, non-zero quantiser target means, numpy-integer parameters; oracle = RefGuppi decode vs RefPipeline driven by the antenna request log, plus same-seed partition twins; a stated fraction of runs has hundreds of PFB windows per block",
         "every decoded sample of every recording compared with an independent reference (direct-definition PFB, quantiser model) over thousands of seeded configurations and partitions per run; sampling, not proof"),
 "C03": ("deterministic simulation: seeded operation histories on frames, their parents and sibling frames (get_waterfall/copy/pickle/slice/dedrift/rebind/retime/save/load, saves over existing files, saves that are rejected or interrupted at a traced line, frames from time-selected Waterfalls, two frames on one Waterfall object) under a jumping simulated clock; oracle = loaded frame vs saved frame, blimpy as independent reader, helper functions given paths or Waterfall objects (which must stay unchanged); a stated fraction of runs uses survey-sized frames (over 2**20 samples, shapes not powers of two)",
         "round trips through real blimpy/h5py I/O for every generated history; exploration of the history space, not exhaustive"),
 "C04": ("deterministic simulation: seeded header dictionaries, recordings with injected write/open faults and retries, recordings over earlier recordings, re-passed caller dictionaries, start_chan re-assigned between recordings, headers of up to 700 cards, simulated directory-listing permutations; oracle = RefGuppi parse with no residue, blimpy GuppiRaw and setigen readers must agree; header length mod 32 x DIRECTIO enumerated; a stated fraction of runs records blocks of more than 2**20 samples with non-power-of-two channel counts",
         "enumerates all 32 header-length residues x 3 DIRECTIO classes and all listing permutations of small recordings on every run, samples the rest"),
 "C06": ("deterministic simulation: seeded sequences of injections over several live frames (incl. float32 loaded from file), injections that die in a user callback, frames taking part in cadence injections in between (also twice in one cadence), unseeded frames and signal functions, bounds as quantities; argument arrays must stay unchanged; frame-state invariant over all live frames after every operation, each returned signal also computed separately on an empty twin; a stated fraction of runs injects into a survey-sized frame through a wide bounding range with the signal at its upper edge",
         "bitwise additivity/confinement/state-preservation invariants after every op; exploration"),
 "C08": ("deterministic simulation: seeded chunking schedules, cache on/off calls, rejected calls, resets, dtype switches and interleavings of several filterbank objects (incl. same coefficient count in another split), rare very long and ragged single calls, branch counts with large prime factors, objects copied or pickled mid-stream; oracle = direct FIR+DFT definition on the consumed prefix",
         "every returned spectrum compared with the definition at 1e-10 of the attainable magnitude; exploration of chunk compositions"),
 "C09": ("deterministic simulation: seeded call histories per quantiser object (incl. rejected calls, real-dtype input to complex quantisers, numpy-integer parameters, copies/pickles between calls) against refresh periods; returned arrays are held and re-checked later; oracle = step-by-step reference quantiser with a rounding-tie band; bursts of hundreds of calls on one object",
         "every output integer compared with the reference; exploration of call histories"),
 "C10": ("deterministic simulation: seeded request partitions interleaved with set_time/add_time/reset_start/update_noise, requests that fail in a user source followed by the public recovery, sources serving views of their own arrays, chirp parameters as quantities, the BackgroundDataStream subclass, a predecessor stream of another sample rate; oracles = exact-time reference stream and chunked-vs-one-shot same-seed twin; bursts of hundreds of requests on one object, optionally behind an update_noise",
         "times bitwise in dyadic configurations, seeded noise bitwise, chirps within a derived bound; exploration"),
 "C11": ("deterministic simulation: seeded histories of noise additions (incl. degenerate parameters and rejected calls)/zero_data/injections/copies on two frames of different resolution, observation of the estimates as a scheduled op, returned arrays held and checked for aliasing, with a bookkeeping model; distributional clauses at analytically derived 7-sigma bands; stream quadrature clause; survey-sized frames (over 2**20 pixels) in a stated fraction of runs",
         "bookkeeping decided op by op; moment tests have stated power only (k off by 4 detected for k <= 40 at N >= 16384)"),
 "C12": ("deterministic simulation, differential between executions: same seeded program in forked sub-children under different clock/entropy/listing/scratch seams; with vs without a prefix history in the same process; reused backend (whose first recording may have failed; synthetic or from_data) vs fresh backend on a replayed request log; reused vs fresh caller dictionary; batches re-executed in a fresh interpreter under another PYTHONHASHSEED; special seed values (0, 2**31, 2**32-1); copy/pickle isolation invariant incl. consolidated frames; seeded channelised-noise estimates on user-sized and production-sized filterbanks (over 2**24 samples)",
         "event-by-event comparison of all observables between executions; exploration of programs; the seam or prefix op responsible is identified by re-running with one varied at a time"),
 "C14": ("deterministic simulation: inputs written by setigen or by RefGuppi (possibly replacing another recording of the same byte size the library has already read), listing permutations while building, injected faults with retry on the same backend, num_subblocks re-assigned between injections, streams silent for whole sub-blocks; oracle = RefGuppi decode of every block read, framing equality, and RefQuant(input + RefQuant0(RefPFB(synthetic))) with deviations snapshotted before the recording; about one run in a hundred (one in twenty in the thorough tier) has production-sized loud input blocks",
         "every sample of every output block compared with the reference unless its inner quantisation sits on a rounding boundary; exploration"),
 "C15": ("deterministic simulation: seeded request partitions interleaved with set_time/add_time/reset_start, rejected (too small) requests, mid-observation update_noise, late background configuration, complex voltages and a caller re-using its delays array, on arrays with seeded delay vectors; oracle = own[k] + background[k + max_delay - delay_i] from same-seed reference streams; one very long request (up to 1.6 million samples) followed by ordinary ones in a stated fraction of runs",
         "every sample compared (bitwise for noise-only streams); exploration"),
 "C16": ("deterministic simulation with enumerated fault points: per generated scenario every invocation index of every user callable raises once and every line event inside the per-frame injection is interrupted once (sys.settrace); scenarios include out-of-order selections, frames with their own time origin, options by position, cadences laid out after construction; oracle = shifted-callable twin, time axes restored, later frames untouched; cadences of 33-70 frames in a stated fraction of runs",
         "fault points are enumerated completely per scenario (no sub-sampling observed below 1500 line events); scenarios themselves are sampled"),
 "C17": ("deterministic simulation: seeded derive histories (slice incl. bounds counted from the end/dedrift incl. exact half-channel ties and consolidated parents/integrate, derived-of-derived, loaded float32 and Waterfall-carrying parents) under a jumping simulated clock; oracle = the statement's formulas on the parent, mutation isolation both ways; a de-Doppler search of 70-200 distinct trial rates between two uses of the same rate",
         "each derive op checked as it happens; the arithmetic itself is pure (stated caveat), the clock- and history-dependent clauses are what simulation adds"),
 "C18": ("deterministic simulation, model-based: seeded list-operation histories over compatible/incompatible/non-frame objects, constructor keywords, derived cadences that are mutated while the source is re-checked, selectors that must stay unchanged; oracle = Python list by identity plus label bookkeeping after every op; rejected operations are the faults; whole sessions of 32-70 frames handed over in one list",
         "identity comparison with the reference list after every op; exploration of histories up to 18 (quick) / 30 (thorough) ops"),
 "C20": ("deterministic simulation: conservation over the antenna request log (a seam the code already has) for recordings by block count or duration on synthetic and from_data backends (requests below, at and beyond the input), num_subblocks re-assigned between recordings, helper results held across calls, with injected faults and retries; helper functions cross-checked on the drawn configurations; about one run in a hundred (one in twenty in the thorough tier) has sub-blocks of more than 2**22 real samples",
         "exact integer and 2-ulp ratio checks per recording; exploration; the pure helper functions are only reached as cross-checks (scope stated)"),
}

def main():
    props = [json.loads(l) for l in open(os.path.join(HERE, "properties.jsonl"))]
    checks = []
    na = []
    for p in props:
        pid = p["id"]
        path = os.path.join(HERE, "sim", "props", pid + ".py")
        if pid in NA or not os.path.exists(path):
            na.append({"property_id": pid, "reason": NA.get(pid, "check not built yet (claimed in DESIGN.md; will be registered when its check exists)")})
            continue
        src = open(path).read()
        ns = {}
        # cheap: pull constants without importing setigen
        for name in ("LEVEL", "LEVEL_TEXT", "LEVEL_NOTE", "TECHNIQUE", "DESIGN_REF"):
            pass
        mod = importlib.import_module("sim.props." + pid)
        checks.append({
            "property_id": pid,
            "quick_cmd": "./check %s --tier quick" % pid,
            "thorough_cmd": "./check %s --tier thorough" % pid,
            "evidence_file": "/verif/evidence/%s.json" % pid,
            "replay_cmd_template": "./check --replay {path}",
            "engine": "simworld",
            "level_claimed": {"category": getattr(mod, "LEVEL", "exploration"),
                              "text": META.get(pid, ("", "seeded search over schedules/histories/faults against a reference model; a clean batch is evidence, not proof"))[1],
                              "design_ref": "DESIGN.md section 5, " + pid},
            "level_note": "trusted: numpy, scipy (firwin), astropy, blimpy/h5py as I/O parties, CPython fork and sys.settrace, and the reference models in sim/models; assumptions of this check: " + "; ".join(getattr(mod, "ASSUMPTIONS", [])),
            "technique": META.get(pid, ("deterministic simulation: seeded op/fault schedules in forked children, reference-model oracle, ddmin replay",))[0],
        })
    man = {
        "version": 1,
        "setup_cmd": "/venv/bin/python -W ignore tools/setup_check.py",
        "hooks": {"guard": "SETIGEN_VERIF", "enable": "none needed: seams are installed by rebinding module globals of setigen inside the forked children; /repo carries no hook", "baseline_off_cmd": "cd /repo && /venv/bin/python -m pytest -ra -q -p no:cacheprovider --timeout=900 --continue-on-collection-errors", "source_commits": [], "add_only": True},
        "engines": [{"name": "simworld", "path": "/verif/sim", "serves_properties": [c["property_id"] for c in checks], "kind_free_text": "deterministic simulation with fault injection: own seeded scheduler, fork-per-run isolation, seams for clock/entropy/files/listing/interrupts, reference models, ddmin minimiser, JSON replay"}],
        "checks": checks,
        "not_applicable": na,
        "notes": "Exit 0 held / 1 VIOLATION line / 2 harness trouble. VERIF_SEED and VERIF_TIER honoured. Quick tier = a fixed quota of seeded scenarios per property (sim/driver.py:QUICK_RUNS; same seed, same tree => same work and same evidence on any machine; 300 s ceiling as safety net), thorough tier = time budget (VERIF_BUDGET_S, default 900 s). See DESIGN.md, in particular 11.8.",
    }
    json.dump(man, open(os.path.join(HERE, "MANIFEST.json"), "w"), indent=1)
    print("checks:", [c["property_id"] for c in checks])
    print("n/a:", [c["property_id"] for c in na])

if __name__ == "__main__":
    main()
