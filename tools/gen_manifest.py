"""Regenerate MANIFEST.json from the property modules present in sim/props."""
import json, os, sys, importlib
HERE = os.path.dirname(os.path.dirname(os.path.abspath(__file__)))
sys.path.insert(0, HERE)

NA = {
 "C01": "pure function of (frame geometry, four components, flags): no state survives the call and the path reads no clock, entropy, file or listing; nothing to schedule, time or fault (DESIGN.md section 6)",
 "C05": "axis construction and index<->frequency conversion are pure arithmetic on constructor arguments; no schedule, clock, I/O or history in the statement (DESIGN.md section 6)",
 "C07": "tone/bin registration is a pure function of (sample rate, branches, start channel, orientation, tone); its framing side is decided under C04 (DESIGN.md section 6)",
 "C13": "the constant-signal helper is a pure function compared with another pure function; no schedule, fault or history (DESIGN.md section 6)",
 "C19": "the splitters are pure functions of (header, sizes); the files they read/write involve no history or fault the statement speaks about (DESIGN.md section 6)",
}

def main():
    props = [json.loads(l) for l in open(os.path.join(HERE, "properties.jsonl"))]
    checks = []
    na = []
    for p in props:
        pid = p["id"]
        path = os.path.join(HERE, "sim", "props", pid + ".py")
        if pid in NA or not os.path.exists(path):
            na.append({"property_id": pid, "reason": NA.get(pid, "check not built yet (claimed in DESIGN.md; will be registered when its check exists)")})
            continue
        src = open(path).read()
        ns = {}
        # cheap: pull constants without importing setigen
        for name in ("LEVEL", "LEVEL_TEXT", "LEVEL_NOTE", "TECHNIQUE", "DESIGN_REF"):
            pass
        mod = importlib.import_module("sim.props." + pid)
        checks.append({
            "property_id": pid,
            "quick_cmd": "./check %s --tier quick" % pid,
            "thorough_cmd": "./check %s --tier thorough" % pid,
            "evidence_file": "/verif/evidence/%s.json" % pid,
            "replay_cmd_template": "./check --replay {path}",
            "engine": "simworld",
            "level_claimed": {"category": getattr(mod, "LEVEL", "exploration"),
                              "text": getattr(mod, "LEVEL_TEXT", "seeded search over schedules/histories/faults against a reference model; a clean batch is evidence, not proof"),
                              "design_ref": "DESIGN.md section 5, " + pid},
            "level_note": getattr(mod, "LEVEL_NOTE", "trusted: numpy, scipy, astropy, blimpy/h5py as I/O parties, CPython fork and settrace; the reference models in sim/models"),
            "technique": getattr(mod, "TECHNIQUE", "deterministic simulation: seeded op/fault schedules in forked children, reference-model oracle, ddmin replay"),
        })
    man = {
        "version": 1,
        "setup_cmd": "/venv/bin/python -W ignore tools/setup_check.py",
        "hooks": {"guard": "SETIGEN_VERIF", "enable": "none needed: seams are installed by rebinding module globals of setigen inside the forked children; /repo carries no hook", "baseline_off_cmd": "cd /repo && /venv/bin/python -m pytest -ra -q -p no:cacheprovider --timeout=900 --continue-on-collection-errors", "source_commits": [], "add_only": True},
        "engines": [{"name": "simworld", "path": "/verif/sim", "serves_properties": [c["property_id"] for c in checks], "kind_free_text": "deterministic simulation with fault injection: own seeded scheduler, fork-per-run isolation, seams for clock/entropy/files/listing/interrupts, reference models, ddmin minimiser, JSON replay"}],
        "checks": checks,
        "not_applicable": na,
        "notes": "Exit 0 held / 1 VIOLATION line / 2 harness trouble. VERIF_SEED, VERIF_TIER, VERIF_BUDGET_S honoured. See DESIGN.md.",
    }
    json.dump(man, open(os.path.join(HERE, "MANIFEST.json"), "w"), indent=1)
    print("checks:", [c["property_id"] for c in checks])
    print("n/a:", [c["property_id"] for c in na])

if __name__ == "__main__":
    main()
