"""Sensitivity self-test: plant a mutant (or re-introduce a defect by reverting a
fix: commit) in a scratch copy of /repo, run the property's quick check against
it with VERIF_REPO=<scratch>, expect exit 1 and a replay that reproduces, then
delete the copy.  Results go to /verif/sensitivity/results.json.

usage: tools/mutants.py [--only C08,C09] [--reverts] [--planted] [--budget 25] [--pytest]
"""
import json
import os
import shutil
import subprocess
import sys
import tempfile
import time

HERE = os.path.dirname(os.path.dirname(os.path.abspath(__file__)))
REPO = "/repo"

# (id, property, file, old, new, what it needs to manifest)
PLANTED = [
    ("C08-cache-short", "C08", "setigen/voltage/polyphase_filterbank.py",
     "self.cache = x[-self.num_taps*self.num_branches:]", "self.cache = x[-self.num_taps*self.num_branches + self.num_branches:]",
     "a second cached chunk"),
    ("C08-cache-long", "C08", "setigen/voltage/polyphase_filterbank.py",
     "self.cache = x[-self.num_taps*self.num_branches:]", "self.cache = x[-self.num_taps*self.num_branches - self.num_branches:]",
     "a second cached chunk (one spectrum repeated at the seam)"),
    ("C08-norm", "C08", "setigen/voltage/polyphase_filterbank.py", "axis=1)[:, 0:self.num_branches//2] / self.num_branches**0.5",
     "axis=1)[:, 0:self.num_branches//2] / self.num_branches", "any call"),
    ("C09-refresh-ge", "C09", "setigen/voltage/quantization.py", "if self.stats_calc_indices == self.stats_calc_period:",
     "if self.stats_calc_indices >= self.stats_calc_period:", "a non-positive period and a second call with different statistics"),
    ("C09-floor", "C09", "setigen/voltage/quantization.py", "q_voltages = xp.around(factor * (x - data_mean) + target_mean)",
     "q_voltages = xp.floor(factor * (x - data_mean) + target_mean)", "any non-integer pre-rounding value"),
    ("C09-expanded-affine", "C09", "setigen/voltage/quantization.py", "q_voltages = xp.around(factor * (x - data_mean) + target_mean)",
     "q_voltages = xp.around(factor * x - factor * data_mean + target_mean)",
     "a huge pedestal (|mean| about 2**50 times the deviation): the expanded form cancels catastrophically and misses the stated value by whole levels"),
    ("C09-clip-hi", "C09", "setigen/voltage/quantization.py", "2**(num_bits - 1) - 1)", "2**(num_bits - 1))", "an input above the range"),
    ("C09-shared-cache", "C09", "setigen/voltage/quantization.py",
     "q_i = self.quantizer_i.quantize(xp.imag(voltages), custom_std=custom_stds[1])",
     "self.quantizer_i.stats_cache = self.quantizer_r.stats_cache\n        self.quantizer_i.stats_calc_indices = 1 if self.quantizer_i.stats_cache[0] is not None else 0\n        q_i = self.quantizer_i.quantize(xp.imag(voltages), custom_std=custom_stds[1])",
     "complex input whose parts have different statistics"),
    ("C10-endpoint", "C10", "setigen/voltage/data_stream.py", "endpoint=False)\n        self.t_start += num_samples * self.dt",
     "endpoint=True)\n        self.t_start += num_samples * self.dt", "a request of more than one sample"),
    ("C10-update-noise-clock", "C10", "setigen/voltage/data_stream.py", "        self.start_obs = start_obs\n        self.t_start = t_start\n",
     "        self.start_obs = start_obs\n", "update_noise between requests"),
    ("C10-drift-factor", "C10", "setigen/voltage/data_stream.py", "0.5 * drift_rate * ts**2", "drift_rate * ts**2", "a drifting chirp"),
    ("C10-no-sign-flip", "C10", "setigen/voltage/data_stream.py", "            if not self.ascending:\n                chirp_phase = -chirp_phase\n", "",
     "a descending band with non-zero phase"),
    ("C15-cache-slice", "C15", "setigen/voltage/antenna.py", "antenna.bg_cache[0] = self.bg_x.v[bg_num_samples-antenna.delay:]",
     "antenna.bg_cache[0] = self.bg_x.v[num_samples-antenna.delay:]", "first request of an observation with a delayed antenna, then a second"),
    ("C15-settime-bg-y", "C15", "setigen/voltage/antenna.py", "        if self.num_pols == 2:\n            self.bg_y.set_time(t)\n        for antenna in self.antennas:",
     "        for antenna in self.antennas:", "two polarisations, a chirp on the y background, set_time after a request"),
    ("C15-delay-sign", "C15", "setigen/voltage/antenna.py", "bg_x_v = self.bg_x.v[self.max_delay-antenna.delay:bg_num_samples-antenna.delay]",
     "bg_x_v = self.bg_x.v[antenna.delay:num_samples+antenna.delay]", "unequal delays"),
    ("C02-no-pfb-reset", "C02", "setigen/voltage/backend.py", "                self.filterbank[antenna][pol]._reset_cache()\n", "",
     "a second recording on the same backend"),
    ("C02-nibble-swap", "C02", "setigen/voltage/backend.py", "final_voltages[c_idx[:, np.newaxis], t_idx[np.newaxis, :]] = R * 16 + I",
     "R[R < 0] += 16\n                            I[I >= 8] -= 16\n                            final_voltages[c_idx[:, np.newaxis], t_idx[np.newaxis, :]] = I * 16 + R", "4-bit output"),
    ("C02-last-subblock", "C02", "setigen/voltage/backend.py",
     "                if T % subblock_T != 0 and subblock == self.num_subblocks - 1:\n                    W = int((T % subblock_T) / self.num_taps) + 1\n",
     "", "a sub-block count that does not divide the window count"),
    ("C02-pol-offset", "C02", "setigen/voltage/backend.py", "t_idx = subblock * subblock_t_len + self.num_bits // 4 * pol + np.arange(0,",
     "t_idx = subblock * subblock_t_len + 2 * pol + np.arange(0,", "two polarisations, 4 bit"),
    ("C04-pktidx-step", "C04", "setigen/voltage/backend.py", "header_dict['PKTIDX'] += self.samples_per_block", "header_dict['PKTIDX'] += self.block_size",
     "two blocks"),
    ("C04-last-file", "C04", "setigen/voltage/backend.py", "blocks_to_write = self.num_blocks % self.blocks_per_file",
     "blocks_to_write = self.num_blocks % self.blocks_per_file + 1", "a partial last file"),
    ("C04-override-order", "C04", "setigen/voltage/backend.py", "        header_dict['NBITS'] = self.num_bits\n",
     "        header_dict.setdefault('NBITS', self.num_bits)\n", "a user-supplied NBITS card"),
    ("C04-unsorted", "C04", "setigen/voltage/raw_utils.py", "filenames = sorted(glob.glob(f'{input_file_stem}.????.raw'))",
     "filenames = glob.glob(f'{input_file_stem}.????.raw')", "a permuted directory listing and a partial last file"),
    ("C14-nibble-sign", "C14", "setigen/voltage/backend.py", "I[I >= 8] -= 16", "I[I > 8] -= 16", "4-bit input holding imaginary part -8"),
    ("C14-target-not-restored", "C14", "setigen/voltage/backend.py",
     "                                self.requantizer[antenna][pol].quantizer_r.target_mean = temp_mean_r\n", "",
     "an input block with non-zero mean"),
    ("C14-header-size", "C14", "setigen/voltage/backend.py", "backend.header_size = 80 * (len(backend.input_header_dict) + 1)",
     "backend.header_size = 80 * len(backend.input_header_dict)", "an unpadded input"),
    ("C20-warmup-every-block", "C20", "setigen/voltage/backend.py", "                if self.antenna_source.start_obs:\n                    num_samples = self.num_branches * self.num_taps * W",
     "                if subblock == 0:\n                    num_samples = self.num_branches * self.num_taps * W", "two blocks"),
    ("C20-round-blocks", "C20", "setigen/voltage/backend.py",
     "return int(obs_length * abs(self.chan_bw) * self.num_antennas * self.num_chans * self.bytes_per_sample / self.block_size)",
     "return int(round(obs_length * abs(self.chan_bw) * self.num_antennas * self.num_chans * self.bytes_per_sample / self.block_size))",
     "a duration of k + 1/2 blocks"),
    ("C16-offset-sign", "C16", "setigen/cadence.py", "frame.ts = ts + (frame.t_start - self.t_start)", "frame.ts = ts - (frame.t_start - self.t_start)",
     "two frames and a time-dependent callable"),
    ("C16-restore-after-continue", "C16", "setigen/cadence.py",
     "            try:\n                frame.add_signal(*args, **kwargs)\n            finally:",
     "            try:\n                frame.add_signal(*args, **kwargs)\n            except KeyError:\n                continue\n            else:",
     "a callback raising on a later frame"),
    ("C16-consolidate-order", "C16", "setigen/cadence.py", "c_frame.data = np.concatenate([frame.data \n                                       for frame in self.frames],",
     "c_frame.data = np.concatenate([frame.data \n                                       for frame in self.frames[::-1]],", "two frames"),
    ("C18-check-after-insert", "C18", "setigen/cadence.py", "    def insert(self, i, v):\n        self._check(v)\n        self.frames.insert(i, v)",
     "    def insert(self, i, v):\n        self.frames.insert(i, v)\n        self._check(v)", "inserting an incompatible frame at index 0"),
    ("C18-fmin-dropped", "C18", "setigen/cadence.py", "for attr in ['df', 'dt', 'fchans', 'fmin']:", "for attr in ['df', 'dt', 'fchans']:",
     "a frame differing only in fmin"),
    ("C18-by-label-order", "C18", "setigen/cadence.py", "if frame.metadata[\"order_label\"] == order_label])",
     "if self.order[min(self.frames.index(frame), len(self.order) - 1)] == order_label])", "a frame whose sticky label differs from its position"),
    ("C06-assign", "C06", "setigen/frame.py", "self.data[:, bounding_min:bounding_max] += signal", "self.data[:, bounding_min:bounding_max] = signal",
     "prior content"),
    ("C06-noise-stats", "C06", "setigen/frame.py", "        signal_frame = np.zeros(self.shape)\n        signal_frame[:, bounding_min:bounding_max] = signal",
     "        self._update_noise_frame_stats()\n        signal_frame = np.zeros(self.shape)\n        signal_frame[:, bounding_min:bounding_max] = signal", "any injection"),
    ("C06-inclusive-max", "C06", "setigen/frame.py", "            bounding_max = min(max(self.get_index(bounding_f_range[1]), bounding_min), \n                               self.fchans)",
     "            bounding_max = min(max(self.get_index(bounding_f_range[1]) + 1, bounding_min), \n                               self.fchans)", "a bounding range inside the band"),
    ("C17-slice-fch1", "C17", "setigen/slice.py", "fch1 = fr.fs[r - 1]", "fch1 = fr.fs[r]", "a descending frame, r < fchans"),
    ("C17-dedrift-neg", "C17", "setigen/dedrift.py", "            end_idx = fr.data.shape[1] - offset\n", "            end_idx = fr.data.shape[1] - offset - 1\n",
     "a negative drift rate"),
    ("C17-view", "C17", "setigen/frame.py", "                self.data = np.copy(data)", "                self.data = data", "mutating a slice"),
    ("C03-no-flip-save", "C03", "setigen/frame.py", "            self.waterfall.data = self.waterfall.data[:, :, ::-1]\n", "            pass\n", "a descending frame"),
    ("C03-foff-sign", "C03", "setigen/frame.py", "header_attr['foff'] = self.df * -1e-6", "header_attr['foff'] = self.df * 1e-6", "a descending frame"),
    ("C03-load-no-flip", "C03", "setigen/frame.py", "            if not self.ascending:\n                self.data = self.data[:, ::-1]\n        else:",
     "        else:", "loading a descending file"),
    ("C11-df-int", "C11", "setigen/frame.py", "self.chi2_df = 4 * round(self.df * self.dt)", "self.chi2_df = 4 * int(self.df * self.dt)", "df*dt = 1.5 or 2.5 .. with a large frame"),
    ("C11-always-reestimate", "C11", "setigen/frame.py", "        set_to_param = (self.noise_mean == self.noise_std == 0)\n        if set_to_param:\n            self.noise_mean, self.noise_std = x_mean, x_std\n        else:\n            self._update_noise_frame_stats()\n\n        return noise\n\n    def add_noise_from_obs",
     "        self._update_noise_frame_stats()\n\n        return noise\n\n    def add_noise_from_obs", "first noise on an empty frame"),
    ("C11-share-ignored", "C11", "setigen/frame.py", "                    i = self.rng.integers(len(x_mean_array))\n                    x_mean, x_std = x_mean_array[i], x_std_array[i]",
     "                    x_mean, x_std = self.rng.choice(x_mean_array), self.rng.choice(x_std_array)", "share_index with tables of distinct entries"),
    ("C11-bg-not-propagated", "C11", "setigen/voltage/data_stream.py", "        DataStream.add_noise(self, v_mean, v_std)\n        self._set_all_bg_noise()",
     "        DataStream.add_noise(self, v_mean, v_std)", "noise added to an array background"),
    ("C12-unseeded-chi2", "C12", "setigen/distributions.py", "    rng = np.random.default_rng(seed)\n    return rng.chisquare", "    rng = np.random.default_rng()\n    return rng.chisquare",
     "chi2 noise in a twin program"),
    ("C12-global-rng", "C12", "setigen/funcs/paths.py", "f_offset = rng.uniform(-spread / 2., spread / 2., size=t.shape)",
     "f_offset = np.random.uniform(-spread / 2., spread / 2., size=t.shape)", "an RFI path in a twin program"),
    ("C12-shallow-copy", "C12", "setigen/frame.py", "        c_frame = copy.deepcopy(self)", "        c_frame = copy.copy(self)", "copy then mutate"),
    ("C12-clock-in-noise", "C12", "setigen/frame.py", "        self.data += noise\n\n        set_to_param = (self.noise_mean == self.noise_std == 0)\n        if set_to_param:\n            self.noise_mean, self.noise_std = x_mean, x_std\n        else:\n            self._update_noise_frame_stats()\n\n        return noise\n\n    def add_noise_from_obs",
     "        self.data += noise\n        self.metadata['noise_added_at'] = time.time()\n\n        set_to_param = (self.noise_mean == self.noise_std == 0)\n        if set_to_param:\n            self.noise_mean, self.noise_std = x_mean, x_std\n        else:\n            self._update_noise_frame_stats()\n\n        return noise\n\n    def add_noise_from_obs",
     "noise in a twin program"),
]

# semantics-preserving edits: every listed check must stay at exit 0 (no false alarm)
BENIGN = [
    ("benign-round", ["C09", "C02"], "setigen/voltage/quantization.py", "q_voltages = xp.around(factor * (x - data_mean) + target_mean)",
     "q_voltages = xp.round(factor * (x - data_mean) + target_mean)"),
    ("benign-pathlib-open", ["C02", "C04", "C20"], "setigen/voltage/backend.py", "                with open(save_fn, 'wb') as f:",
     "                with pathlib.Path(save_fn).open('wb') as f:"),
    ("benign-arange-times", ["C10", "C15", "C02"], "setigen/voltage/data_stream.py",
     "        self.ts = self.t_start + xp.linspace(0., \n                                             num_samples * self.dt,\n                                             num_samples,\n                                             endpoint=False)",
     "        self.ts = self.t_start + xp.arange(num_samples) * self.dt"),
    ("benign-chirp-form", ["C10"], "setigen/voltage/data_stream.py", "0.5 * drift_rate * ts**2", "drift_rate * ts * ts / 2"),
    ("benign-fft-norm", ["C08", "C02"], "setigen/voltage/polyphase_filterbank.py",
     "        X_pfb = xp.fft.fft(x, \n                           self.num_branches,\n                           axis=1)[:, 0:self.num_branches//2] / self.num_branches**0.5",
     "        X_pfb = xp.fft.fft(x, \n                           axis=1)[:, :self.num_branches//2] * (1.0 / xp.sqrt(self.num_branches))"),
    ("benign-signal-order", ["C06", "C16"], "setigen/frame.py", "            signal = t_profile_tt * f_profile(ff, path_tt) * bp_profile_ff",
     "            signal = bp_profile_ff * t_profile_tt * f_profile(ff, path_tt)"),
    ("benign-sorted-listdir", ["C04", "C14"], "setigen/voltage/raw_utils.py", "    filenames = sorted(glob.glob(f'{input_file_stem}.????.raw'))",
     "    import pathlib\n    _p = pathlib.Path(str(input_file_stem))\n    filenames = sorted(str(q) for q in _p.parent.glob(_p.name + '.????.raw'))"),
    ("benign-dedrift-vectorised", ["C17"], "setigen/dedrift.py", "        offset = int(np.round(abs(drift_rate) * i * fr.dt / fr.df))",
     "        offset = int(np.rint(abs(drift_rate) * i * fr.dt / fr.df))"),
    ("benign-dedrift-reassociated", ["C17"], "setigen/dedrift.py", "        offset = int(np.round(abs(drift_rate) * i * fr.dt / fr.df))",
     "        offset = int(np.round(abs(drift_rate) * fr.dt / fr.df * i))"),
    ("benign-cadence-list-copy", ["C18", "C16"], "setigen/cadence.py", "        self.frames = list()", "        self.frames = []"),
    ("benign-header-copy", ["C12", "C04"], "setigen/voltage/backend.py", "        header_dict = dict(header_dict)\n", "        header_dict = copy.copy(header_dict)\n"),
    ("benign-noise-order", ["C11"], "setigen/frame.py", "        set_to_param = (self.noise_mean == self.noise_std == 0)\n        if set_to_param:\n            self.noise_mean, self.noise_std = x_mean, x_std\n        else:\n            self._update_noise_frame_stats()\n\n        return noise\n\n    def add_noise_from_obs",
     "        if self.noise_mean == 0 and self.noise_std == 0:\n            self.noise_std = x_std\n            self.noise_mean = x_mean\n        else:\n            self._update_noise_frame_stats()\n\n        return noise\n\n    def add_noise_from_obs"),
    ("benign-tpb-reassoc", ["C20", "C04", "C02"], "setigen/voltage/backend.py", "        self.time_per_block = self.samples_per_block * self.tbin",
     "        self.time_per_block = self.samples_per_block * self.num_branches / self.sample_rate"),
    ("benign-chanbw-direct", ["C04", "C20"], "setigen/voltage/backend.py", "        self.chan_bw = 1 / self.tbin",
     "        self.chan_bw = self.sample_rate / self.num_branches"),
    ("benign-obsfreq-reassoc", ["C04"], "setigen/voltage/backend.py",
     "        center_freq = (self.start_chan + (self.num_chans - 1) / 2) * self.chan_bw\n        center_freq += self.fch1",
     "        center_freq = self.fch1 + self.start_chan * self.chan_bw + (self.num_chans - 1) * self.chan_bw / 2"),
    ("benign-quant-reassoc", ["C09", "C02", "C14"], "setigen/voltage/quantization.py", "q_voltages = xp.around(factor * (x - data_mean) + target_mean)",
     "q_voltages = xp.around((x - data_mean) * factor + target_mean)"),
    ("benign-chi2-scale", ["C11", "C12", "C06"], "setigen/distributions.py", "    return rng.chisquare(df=chi2_df, size=shape) * x_mean / chi2_df",
     "    return rng.chisquare(df=chi2_df, size=shape) * (x_mean / chi2_df)"),
    ("benign-fs-arange", ["C03", "C17", "C06", "C16"], "setigen/frame.py",
     "            self.fs = np.linspace(self.fmin,\n                                  self.fmin + self.fchans * self.df,\n                                  self.fchans,\n                                  endpoint=False)",
     "            self.fs = self.fmin + np.arange(self.fchans) * self.df"),
    ("benign-ts-arange", ["C03", "C17", "C06", "C16", "C18"], "setigen/frame.py",
     "        self.ts = unit_utils.get_value(np.linspace(0,\n                                                   self.tchans * self.dt,\n                                                   self.tchans,\n                                                   endpoint=False),\n                                       u.s)",
     "        self.ts = unit_utils.get_value(np.arange(self.tchans) * self.dt, u.s)"),
    ("benign-chirp-horner", ["C10", "C15"], "setigen/voltage/data_stream.py", "((f_start - self.fch1) * ts + 0.5 * drift_rate * ts**2)",
     "(ts * ((f_start - self.fch1) + 0.5 * drift_rate * ts))"),
    ("benign-get-index-rint", ["C06", "C17"], "setigen/frame.py", "        return np.round((unit_utils.get_value(frequency, u.Hz) - self.fmin) / self.df).astype(int)",
     "        return np.rint((unit_utils.get_value(frequency, u.Hz) - self.fmin) / self.df).astype(int)"),
    ("benign-save-str-path", ["C03"], "setigen/frame.py", "        self.waterfall.write_to_fil(filename)", "        self.waterfall.write_to_fil(str(filename))"),
]

# larger semantics-preserving refactors, kept as patch files under sensitivity/benign_patches: the pull-request-style changes of
# seeded round l with their slip corrected (the demo of the seeded change exits 0 on each), i.e. what the same PR looks like done right
BENIGN_PATCHES = [
    ("timegrid-cache", ["C10", "C15", "C02"]),
    ("header-cache-stat-keyed", ["C03"]),
    ("blockcount-loop-tidy", ["C04", "C14"]),
    ("staging-buffer-per-instance", ["C08", "C02"]),
    ("antenna-prealloc-result-type", ["C10", "C02"]),
    ("pickle-without-fs", ["C12", "C03"]),
    ("input-strided-view", ["C14"]),
    ("rolling-bg-window", ["C15", "C02", "C12"]),
    ("ts-ext-cache-identity", ["C16", "C06", "C12"]),
    ("dedrift-vectorised-rowindex", ["C17"]),
    ("getitem-from-selection", ["C18", "C16"]),
    ("blockcount-snap-ulps", ["C20"]),
]

# fix commit -> property whose check must re-find the defect when the fix is reverted
REVERTS = [
    ("bc06074", "C08"), ("4af9c5b", "C09"), ("25da695", "C15"), ("1391308", "C04"), ("f03be70", "C04"), ("e68e37a", "C04"),
    ("a831b8d", "C04"), ("ec98e89", "C20"), ("105baf8", "C14"), ("0c5b5a5", "C18"), ("19e3e72", "C18"), ("407ec0f", "C16"),
    ("8badf21", "C16"), ("5871357", "C06"), ("d8fc3f5", "C17"), ("d8fc3f5", "C12"), ("462f6b9", "C03"), ("1bb3e0a", "C03"),
    ("1bb3e0a", "C12"), ("e534b52", "C03"), ("0897f2c", "C12"), ("f03be70", "C14"), ("38a3588", "C02"), ("38a3588", "C04"), ("cfb484b", "C03"),
]


def scratch_copy():
    base = "/dev/shm" if os.path.isdir("/dev/shm") else tempfile.gettempdir()
    d = tempfile.mkdtemp(prefix="vf-mut-", dir=base)
    subprocess.check_call(["rsync", "-a", "--exclude", ".git", "--exclude", "__pycache__", "--exclude", "jupyter-notebooks",
                           "--exclude", "docs", REPO + "/", d + "/"])
    return d


def run_check(prop, repo, budget):
    env = dict(os.environ, VERIF_REPO=repo, VERIF_SKIP_FRESH="1", VERIF_NDET="0", VERIF_BUDGET_S=str(budget))
    env.pop("PYTHONHASHSEED", None)
    env.pop("_VERIF_REEXEC", None)
    t0 = time.time()
    p = subprocess.run([os.path.join(HERE, "check"), prop, "--tier", "quick"], env=env, capture_output=True, text=True, cwd=HERE,
                       timeout=900)
    lines = [l for l in p.stdout.splitlines() if l.startswith("VIOLATION") or l.startswith("violation found") or l.startswith("HARNESS")]
    return p.returncode, lines, time.time() - t0, p.stdout[-1500:]


def replay_ok(line, repo):
    path = line.split("replay=")[-1].strip()
    env = dict(os.environ, VERIF_REPO=repo)
    env.pop("PYTHONHASHSEED", None)
    env.pop("_VERIF_REEXEC", None)
    p = subprocess.run([os.path.join(HERE, "check"), "--replay", path], env=env, capture_output=True, text=True, cwd=HERE, timeout=300)
    try:
        os.remove(path)
    except OSError:
        pass
    return p.returncode == 1


def main(argv):
    only = None
    budget = 25
    do_reverts = "--reverts" in argv or "--planted" not in argv
    do_planted = "--planted" in argv or "--reverts" not in argv
    run_pytest = "--pytest" in argv
    for i, a in enumerate(argv):
        if a == "--only":
            only = set(argv[i + 1].split(","))
        if a == "--budget":
            budget = float(argv[i + 1])
    results = []
    jobs = []
    if "--benign" in argv:
        do_planted = do_reverts = False
        for mid, props, rel, old_, new_ in BENIGN + [("benign-patch-" + n, pr, None, None, None) for n, pr in BENIGN_PATCHES]:
            if only and mid not in only and not (set(props) & only):
                continue
            d = scratch_copy()
            try:
                if rel is None:
                    pf = os.path.join(HERE, "sensitivity", "benign_patches", mid[len("benign-patch-"):] + ".diff")
                    pr_ = subprocess.run(["patch", "-p1", "-s", "-i", pf], cwd=d, capture_output=True, text=True)
                    if pr_.returncode != 0:
                        print(mid, "PATCH-DOES-NOT-APPLY", pr_.stdout[-300:], flush=True)
                        results.append({"id": mid, "property": ",".join(props), "status": "PATCH-DOES-NOT-APPLY"})
                        continue
                else:
                    pth = os.path.join(d, rel)
                    src = open(pth).read()
                    if old_ not in src:
                        print(mid, "PATCH-DOES-NOT-APPLY", flush=True)
                        results.append({"id": mid, "property": ",".join(props), "status": "PATCH-DOES-NOT-APPLY"})
                        continue
                    open(pth, "w").write(src.replace(old_, new_, 1))
                outcomes = {}
                for pr in props:
                    rc, lines, wall, tail = run_check(pr, d, budget)
                    outcomes[pr] = rc
                    for l in lines:
                        if l.startswith("VIOLATION"):
                            try:
                                os.remove(l.split("replay=")[-1].strip())
                            except OSError:
                                pass
                    if rc != 0:
                        print("   ", pr, [l for l in lines][:3], flush=True)
                ok = all(v == 0 for v in outcomes.values())
                results.append({"id": mid, "property": ",".join(props), "status": "NO-ALARM" if ok else "FALSE-ALARM", "exit": outcomes,
                                "needs": "semantics-preserving edit"})
                print(mid, "NO-ALARM" if ok else "FALSE-ALARM", outcomes, flush=True)
            finally:
                shutil.rmtree(d, ignore_errors=True)
    if do_planted:
        for m in PLANTED:
            if only and m[1] not in only and m[0] not in only:
                continue
            jobs.append(("planted", m))
    if do_reverts:
        for c, prop in REVERTS:
            if only and prop not in only and c not in only:
                continue
            jobs.append(("revert", (c, prop)))
    for kind, m in jobs:
        d = scratch_copy()
        try:
            if kind == "planted":
                mid, prop, rel, old, new, needs = m
                p = os.path.join(d, rel)
                s = open(p).read()
                if old not in s:
                    results.append({"id": mid, "property": prop, "status": "PATCH-DOES-NOT-APPLY"})
                    print(mid, "PATCH-DOES-NOT-APPLY", flush=True)
                    continue
                open(p, "w").write(s.replace(old, new, 1))
            else:
                c, prop = m
                mid = "revert-" + c + "-" + prop
                needs = subprocess.check_output(["git", "-C", REPO, "log", "--format=%s", "-1", c], text=True).strip()
                diff = subprocess.check_output(["git", "-C", REPO, "diff", c + "^", c], text=True)
                pr = subprocess.run(["patch", "-R", "-p1", "-d", d, "--no-backup-if-mismatch"], input=diff, text=True, capture_output=True)
                if pr.returncode != 0:
                    results.append({"id": mid, "property": prop, "status": "REVERT-DOES-NOT-APPLY", "detail": pr.stdout[-300:]})
                    print(mid, "REVERT-DOES-NOT-APPLY", flush=True)
                    continue
            tests = None
            if run_pytest:
                t = subprocess.run(["/venv/bin/python", "-m", "pytest", "-q", "-x", "-p", "no:cacheprovider", "tests"], cwd=d,
                                   capture_output=True, text=True, env=dict(os.environ, PYTHONPATH=d))
                tests = t.returncode == 0
            rc, lines, wall, tail = run_check(prop, d, budget)
            rep = None
            vio = [l for l in lines if l.startswith("VIOLATION")]
            if rc == 1 and vio:
                rep = replay_ok(vio[0], d)
                for l in vio[1:]:
                    try:
                        os.remove(l.split("replay=")[-1].strip())
                    except OSError:
                        pass
            status = "DETECTED" if rc == 1 else ("SURVIVED" if rc == 0 else "HARNESS-TROUBLE")
            sigs = [l for l in lines if l.startswith("violation found")]
            results.append({"id": mid, "property": prop, "status": status, "exit": rc, "wall_s": round(wall, 1), "replay_reproduces": rep,
                            "needs": needs, "signatures": [s.split(": ", 1)[-1] for s in sigs][:3], "repo_tests_pass": tests,
                            "tail": tail if rc not in (0, 1) else None})
            print(mid, status, "replay_ok=%s" % rep, [s.split(": ", 1)[-1] for s in sigs][:2], "%.0fs" % wall, flush=True)
        finally:
            shutil.rmtree(d, ignore_errors=True)
    os.makedirs(os.path.join(HERE, "sensitivity"), exist_ok=True)
    out = os.path.join(HERE, "sensitivity", "benign.json" if "--benign" in argv else "results.json")
    prev = []
    if os.path.exists(out) and only:
        prev = [r for r in json.load(open(out)) if r["id"] not in {x["id"] for x in results}]
    json.dump(prev + results, open(out, "w"), indent=1)
    det = sum(1 for r in results if r["status"] == "DETECTED")
    print("detected %d of %d" % (det, len(results)))


if __name__ == "__main__":
    main(sys.argv[1:])
