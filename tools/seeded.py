"""Confirm a seeded breaking change produced by a sub-agent and run the checks against it.

usage: tools/seeded.py <seed id, e.g. C08-a> [--from /tmp/wt-C08-a] [--budget 40] [--props C08,C12] [--no-tests]

Steps (all in scratch copies outside /repo and /verif, removed afterwards, except
the final check run, which applies the patch to /repo itself and undoes it
straight afterwards, as the brief prescribes):
  1. copy patch.diff + demo.py into /verif/seeded/<id>/
  2. scratch copy of /repo: demo exits 0; apply patch: existing tests pass, demo exits 1
  3. git -C /repo apply patch; ./check <prop> --tier quick for each property; git -C /repo checkout -- .
  4. write meta.json
"""
import json
import os
import shutil
import subprocess
import sys
import tempfile
import time

HERE = os.path.dirname(os.path.dirname(os.path.abspath(__file__)))
REPO = "/repo"


def sh(cmd, **kw):
    return subprocess.run(cmd, capture_output=True, text=True, **kw)


def main(argv):
    sid = argv[0]
    src = "/tmp/wt-" + sid
    budget = 40
    props = [sid.split("-")[0]]
    tests = True
    for i, a in enumerate(argv):
        if a == "--from":
            src = argv[i + 1]
        if a == "--budget":
            budget = float(argv[i + 1])
        if a == "--props":
            props = argv[i + 1].split(",")
        if a == "--no-tests":
            tests = False
    dst = os.path.join(HERE, "seeded", sid)
    os.makedirs(dst, exist_ok=True)
    for f in ("patch.diff", "demo.py"):
        if os.path.exists(os.path.join(src, f)):
            shutil.copy(os.path.join(src, f), os.path.join(dst, f))
    patch = os.path.join(dst, "patch.diff")
    meta_path = os.path.join(dst, "meta.json")
    meta = json.load(open(meta_path)) if os.path.exists(meta_path) else {}
    meta.update({"id": sid, "breaks_property": props[0]})
    ran = meta.setdefault("what_was_run", {})
    # ---- 2. scratch confirmation ------------------------------------------------
    base = "/dev/shm" if os.path.isdir("/dev/shm") else tempfile.gettempdir()
    d = tempfile.mkdtemp(prefix="vf-seed-", dir=base)
    try:
        sh(["rsync", "-a", "--exclude", ".git", "--exclude", "__pycache__", "--exclude", "jupyter-notebooks", "--exclude", "docs",
            REPO + "/", d + "/"])
        shutil.copy(os.path.join(dst, "demo.py"), os.path.join(d, "demo.py"))
        env = dict(os.environ, PYTHONPATH=d)
        r0 = sh(["/venv/bin/python", "-W", "ignore", "demo.py"], cwd=d, env=env, timeout=600)
        ap = sh(["patch", "-p1", "-d", d, "--no-backup-if-mismatch", "-i", patch])
        if ap.returncode != 0:
            print("PATCH DOES NOT APPLY:", ap.stdout[-500:])
            meta["confirmed"] = False
            json.dump(meta, open(meta_path, "w"), indent=1)
            return 2
        r1 = sh(["/venv/bin/python", "-W", "ignore", "demo.py"], cwd=d, env=env, timeout=600)
        ran["demo_without_change_exit"] = r0.returncode
        ran["demo_with_change_exit"] = r1.returncode
        print("demo: without change exit %d, with change exit %d" % (r0.returncode, r1.returncode), flush=True)
        if tests:
            t = sh(["/venv/bin/python", "-m", "pytest", "-q", "-p", "no:cacheprovider", "tests"], cwd=d, env=env, timeout=1800)
            tail = [l for l in t.stdout.splitlines() if "passed" in l or "failed" in l][-1:]
            ran["repo_tests_with_change"] = tail[0] if tail else "exit %d" % t.returncode
            print("repo tests with change:", ran["repo_tests_with_change"], flush=True)
            meta["tests_pass_with_change"] = t.returncode == 0
    finally:
        shutil.rmtree(d, ignore_errors=True)
    meta["confirmed"] = (ran["demo_without_change_exit"] == 0 and ran["demo_with_change_exit"] != 0
                         and meta.get("tests_pass_with_change", True))
    # ---- 3'. optional: checks against a scratch copy (VERIF_REPO), when /repo must stay untouched ----
    if "--scratch" in argv:
        res = meta.setdefault("checks", {})
        d = tempfile.mkdtemp(prefix="vf-seed-", dir=base)
        try:
            sh(["rsync", "-a", "--exclude", ".git", "--exclude", "__pycache__", "--exclude", "jupyter-notebooks", "--exclude", "docs",
                REPO + "/", d + "/"])
            ap = sh(["patch", "-p1", "-d", d, "--no-backup-if-mismatch", "-i", patch])
            for p in props:
                env = dict(os.environ, VERIF_BUDGET_S=str(budget), VERIF_SKIP_FRESH="1", VERIF_NDET="0", VERIF_REPO=d)
                env.pop("PYTHONHASHSEED", None)
                env.pop("_VERIF_REEXEC", None)
                t0 = time.time()
                c = sh([os.path.join(HERE, "check"), p, "--tier", "quick"], cwd=HERE, env=env, timeout=3600)
                sigs = [l.split(": ", 1)[-1] for l in c.stdout.splitlines() if l.startswith("violation found")]
                vio = [l for l in c.stdout.splitlines() if l.startswith("VIOLATION")]
                rep = None
                if c.returncode == 1 and vio:
                    rp = vio[0].split("replay=")[-1].strip()
                    rr = sh([os.path.join(HERE, "check"), "--replay", rp], cwd=HERE, env=env, timeout=600)
                    rep = rr.returncode == 1
                    shutil.copy(rp, os.path.join(dst, "replay-%s.json" % p))
                    for l in vio:
                        try:
                            os.remove(l.split("replay=")[-1].strip())
                        except OSError:
                            pass
                res[p] = {"exit": c.returncode, "detected": c.returncode == 1, "signatures": sigs[:3], "replay_reproduces": rep,
                          "wall_s": round(time.time() - t0, 1), "budget_s": budget, "mode": "scratch copy via VERIF_REPO",
                          "summary": [l for l in c.stdout.splitlines() if " tier=" in l][-1:]}
                print("check %s (scratch): exit %d %s replay_reproduces=%s" % (p, c.returncode, sigs[:2], rep), flush=True)
        finally:
            shutil.rmtree(d, ignore_errors=True)
        meta["caught_by"] = sorted(p for p, r in res.items() if r.get("detected"))
        json.dump(meta, open(meta_path, "w"), indent=1)
        print("caught by:", meta["caught_by"])
        return 0
    # ---- 3. checks against /repo with the patch applied -------------------------
    st = sh(["git", "-C", REPO, "status", "--porcelain"])
    if st.stdout.strip():
        print("refusing: /repo has uncommitted changes:\n" + st.stdout)
        return 2
    res = meta.setdefault("checks", {})
    ap = sh(["git", "-C", REPO, "apply", patch])
    if ap.returncode != 0:
        print("git apply failed:", ap.stderr[-400:])
        return 2
    try:
        for p in props:
            env = dict(os.environ, VERIF_BUDGET_S=str(budget), VERIF_SKIP_FRESH="1", VERIF_NDET="0")
            env.pop("PYTHONHASHSEED", None)
            env.pop("_VERIF_REEXEC", None)
            t0 = time.time()
            c = sh([os.path.join(HERE, "check"), p, "--tier", "quick"], cwd=HERE, env=env, timeout=3600)
            sigs = [l.split(": ", 1)[-1] for l in c.stdout.splitlines() if l.startswith("violation found")]
            vio = [l for l in c.stdout.splitlines() if l.startswith("VIOLATION")]
            rep = None
            if c.returncode == 1 and vio:
                rp = vio[0].split("replay=")[-1].strip()
                rr = sh([os.path.join(HERE, "check"), "--replay", rp], cwd=HERE, env=env, timeout=600)
                rep = rr.returncode == 1
                keep = os.path.join(dst, "replay-%s.json" % p)
                shutil.copy(rp, keep)
                for l in vio:
                    try:
                        os.remove(l.split("replay=")[-1].strip())
                    except OSError:
                        pass
            res[p] = {"exit": c.returncode, "detected": c.returncode == 1, "signatures": sigs[:3], "replay_reproduces": rep,
                      "wall_s": round(time.time() - t0, 1), "budget_s": budget,
                      "summary": [l for l in c.stdout.splitlines() if " tier=" in l][-1:]}
            print("check %s: exit %d %s replay_reproduces=%s" % (p, c.returncode, sigs[:2], rep), flush=True)
            if c.returncode == 2:
                print(c.stdout[-1500:])
    finally:
        sh(["git", "-C", REPO, "checkout", "--", "."])
        left = sh(["git", "-C", REPO, "status", "--porcelain"]).stdout.strip()
        if left:
            print("WARNING: /repo not clean after undo:", left)
    meta["caught_by"] = sorted(p for p, r in res.items() if r.get("detected"))
    json.dump(meta, open(meta_path, "w"), indent=1)
    print("caught by:", meta["caught_by"])
    return 0


if __name__ == "__main__":
    sys.exit(main(sys.argv[1:]))
