#!/bin/sh
# Refresh everything that is committed as "the state of the checks": MANIFEST, evidence of a default-seed quick run of
# every claimed check against /repo, DESIGN tables; validate against the schemas.  Exit non-zero if any check does.
cd "$(dirname "$0")/.." || exit 2
/venv/bin/python tools/gen_manifest.py || exit 2
rc=0
for p in C02 C03 C04 C06 C08 C09 C10 C11 C12 C14 C15 C16 C17 C18 C20; do
  # the plain quick command: fixed work quota (sim/driver.py:QUICK_RUNS), so the committed evidence is what any fresh run
  # of the same command reports, whatever the machine's speed
  out=$(env -u VERIF_BUDGET_S -u VERIF_MAX_RUNS -u VERIF_SEED ./check $p --tier quick 2>&1); r=$?
  echo "$p exit=$r $(echo "$out" | grep -E 'tier=quick' | tail -1 | cut -c1-120)"
  [ $r -ne 0 ] && { rc=1; echo "$out" | grep -E "VIOLATION|violation found|HARNESS" | head -5; }
done
/venv/bin/python tools/gen_design_tables.py
python3-vt - <<'PY' || rc=2
import json, glob, jsonschema
jsonschema.validate(json.load(open('/verif/MANIFEST.json')), json.load(open('/root/.vp/MANIFEST.schema.json')))
es = json.load(open('/root/.vp/EVIDENCE.schema.json'))
for f in sorted(glob.glob('/verif/evidence/*.json')):
    jsonschema.validate(json.load(open(f)), es)
print("manifest and", len(glob.glob('/verif/evidence/*.json')), "evidence files valid")
PY
rm -rf replays/* 2>/dev/null
exit $rc
