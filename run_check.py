"""Python entry behind ./check (a script, not -m, so no module is loaded twice)."""
import os
import sys

HERE = os.path.dirname(os.path.abspath(__file__))
if HERE not in sys.path:
    sys.path.insert(0, HERE)

from sim import driver  # noqa: E402

if __name__ == "__main__":
    sys.exit(driver.main(sys.argv[1:]))
