"""Python entry behind ./check (a script, not -m, so no module is loaded twice)."""
import os
import sys

HERE = os.path.dirname(os.path.abspath(__file__))
if HERE not in sys.path:
    sys.path.insert(0, HERE)

from sim import driver  # noqa: E402

if __name__ == "__main__":
    try:
        rc = driver.main(sys.argv[1:])
    except SystemExit:
        raise
    except BaseException:       # harness trouble never masquerades as a verdict (exit 0 or 1)
        import traceback
        traceback.print_exc()
        print("HARNESS-ERROR: uncaught exception in the driver", flush=True)
        rc = 2
    sys.exit(rc)
